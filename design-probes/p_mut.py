import inspect
import p_queue, p_var
from kopf._core.reactor import queueing
src = inspect.getsource(queueing.worker)
assert "                if backlog.empty():\n                    break\n                else:\n                    continue\n" in src
src = src.replace("                if backlog.empty():\n                    break\n                else:\n                    continue\n", "                break\n")
exec(compile(src, queueing.__file__ + "#mut", 'exec'), queueing.__dict__)
v_two = p_var.v_two
v_two_t = p_var.v_two_t
