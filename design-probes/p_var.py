import p_queue
def v_idle(idle: int) -> bool:
    """
    pre: 1 <= idle <= 10
    post: _ == True
    """
    return p_queue.check_serial_ordered_lossless(0, 0, 1, 1, 1, 1, 0, 0, 0, idle)
def v_gap(g2: int) -> bool:
    """
    pre: 0 <= g2 <= 20
    post: _ == True
    """
    return p_queue.check_serial_ordered_lossless(0, 0, g2, 1, 1, 1, 0, 0, 0, 1)
def v_dur(d0: int) -> bool:
    """
    pre: 0 <= d0 <= 20
    post: _ == True
    """
    return p_queue.check_serial_ordered_lossless(0, 0, 1, 1, 1, 1, d0, 0, 0, 1)
def v_uid(u0: int) -> bool:
    """
    pre: 0 <= u0 <= 1
    post: _ == True
    """
    return p_queue.check_serial_ordered_lossless(0, 0, 1, u0, 1, 1, 0, 0, 0, 1)
def v_two(g1: int, d0: int, idle: int) -> bool:
    """
    pre: 0 <= g1
    pre: 0 <= d0
    pre: 1 <= idle
    post: _ == True
    """
    log, overlaps = p_queue.run_scenario([0, g1], [0, 0], [d0, 0], idle, 1)
    return not overlaps and [rv for _, rv, _, _ in log] == [0, 1]

def v_two_t(g1: int, d0: int, idle: int, t0: bool, t1: bool, t2: bool, t3: bool) -> bool:
    """
    pre: 0 <= g1
    pre: 0 <= d0
    pre: 1 <= idle
    post: _ == True
    """
    log, overlaps = p_queue.run_scenario([0, g1], [0, 0], [d0, 0], idle, 1, ties=[t0, t1, t2, t3])
    return not overlaps and [rv for _, rv, _, _ in log] == [0, 1]
