"""Probe: real queueing.watcher()/worker() under a virtual-time loop with symbolic timings."""
import asyncio
import logging
from typing import List

from kopf._cogs.configs import configuration
from kopf._cogs.structs import references
from kopf._core.reactor import queueing

from symloop import SymLoop

logging.disable(logging.CRITICAL)
RESOURCE = references.Resource('g', 'v1', 'things', namespaced=True)


def run_scenario(gaps: List[int], uids: List[int], durs: List[int], idle: int, limit: int, ties=()):
    n = len(gaps)
    log = []       # (uid, seq, start, end)
    active = {}    # uid -> bool
    overlaps = []
    loop = SymLoop()

    async def fake_stream(**_):
        for i in range(n):
            if gaps[i] > 0:
                await asyncio.sleep(gaps[i])
            u = 'a' if uids[i] == 0 else 'b'
            yield {'type': 'MODIFIED', 'object': {'metadata': {'uid': u, 'resourceVersion': str(i)}}}
        await asyncio.sleep(sum(durs) + (n + 2) * idle + 1000)  # keep the stream open; then the harness cancels the watcher

    async def processor(*, raw_event, **_):
        u = raw_event['object']['metadata']['uid']
        rv = raw_event['object']['metadata']['resourceVersion']
        if active.get(u):
            overlaps.append(u)
        active[u] = True
        start = loop.time()
        d = durs[int(rv)]
        if d > 0:
            await asyncio.sleep(d)
        active[u] = False
        log.append((u, int(rv), start, loop.time()))
        return None

    settings = configuration.OperatorSettings()
    settings.queueing.idle_timeout = idle
    settings.queueing.worker_limit = limit
    settings.queueing.exit_timeout = 2000

    async def main():
        orig = queueing.watching.infinite_watch
        queueing.watching.infinite_watch = fake_stream
        try:
            task = asyncio.create_task(queueing.watcher(
                namespace=None, settings=settings, resource=RESOURCE, processor=processor))
            await asyncio.sleep(sum(gaps) + sum(durs) + (n + 1) * idle + 10)
            task.cancel()
            try:
                await task
            except asyncio.CancelledError:
                pass
        finally:
            queueing.watching.infinite_watch = orig

    try:
        loop.run(main(), ties=ties)
    except RuntimeError as e:
        import traceback
        c = e.__cause__
        print('CAUSE', repr(c), 'CONTEXT', repr(c.__context__) if c else None)
        cc = c.__context__ if c else None
        if cc is not None:
            traceback.print_exception(type(cc), cc, cc.__traceback__)
        if c is not None:
            traceback.print_exception(type(c), c, c.__traceback__)
        raise
    return log, overlaps


def check_serial_ordered_lossless(g0: int, g1: int, g2: int, u0: int, u1: int, u2: int,
                                  d0: int, d1: int, d2: int, idle: int) -> bool:
    """
    pre: 0 <= g0 <= 20 and 0 <= g1 <= 20 and 0 <= g2 <= 20
    pre: 0 <= u0 <= 1 and 0 <= u1 <= 1 and 0 <= u2 <= 1
    pre: 0 <= d0 <= 20 and 0 <= d1 <= 20 and 0 <= d2 <= 20
    pre: 1 <= idle <= 10
    post: _ == True
    """
    log, overlaps = run_scenario([g0, g1, g2], [u0, u1, u2], [d0, d1, d2], idle, 1)
    if overlaps:
        return False
    seen = sorted(rv for _, rv, _, _ in log)
    if seen != [0, 1, 2]:
        return False
    for u in ('a', 'b'):
        seq = [rv for uu, rv, _, _ in log if uu == u]
        if seq != sorted(seq):
            return False
    return True


if __name__ == '__main__':
    import sys, time
    t = time.time()
    print(run_scenario([0, 5, 0], [0, 0, 1], [3, 0, 2], 5, 1), time.time() - t)
    print(check_serial_ordered_lossless(0, 5, 0, 0, 0, 1, 3, 0, 2, 5))
