import asyncio, logging
from typing import List, Optional
import aiohttp
from kopf._cogs.clients import api, errors
from kopf._cogs.configs import configuration
from symloop import SymLoop
logging.disable(logging.CRITICAL)

class FakeResponse:
    def __init__(self, status, retry_after):
        self.status = status
        self.headers = {} if retry_after is None else {'Retry-After': retry_after}
        self.closed = True
    async def json(self):
        return {'kind': 'Status', 'message': 'x', 'code': self.status}
    async def text(self):
        return ''
    def raise_for_status(self):
        raise aiohttp.ClientResponseError(None, (), status=int(self.status))

class FakeSession:
    closed = False
    def __init__(self, script, loop, log):
        self.script, self.loop, self.log, self.i = script, loop, log, 0
    async def request(self, **kw):
        self.log.append(self.loop.time())
        st, ra = self.script[self.i] if self.i < len(self.script) else (200, None)
        self.i += 1
        if st == 0:
            raise aiohttp.ClientConnectionError("drop")
        return FakeResponse(st, ra)

class Ctx:
    server = 'http://x'
    def __init__(self, session): self.session = session
    def add_response(self, r): pass

def run(s0: int, s1: int, s2: int, ra0: int, b0: int, b1: int):
    loop = SymLoop()
    log = []
    settings = configuration.OperatorSettings()
    settings.networking.error_backoffs = [b0, b1]
    sess = FakeSession([(s0, ra0), (s1, None), (s2, None)], loop, log)
    async def main():
        try:
            await api.request('get', '/x', settings=settings, logger=logging.getLogger('x'), context=Ctx(sess))
            return 'ok'
        except Exception as e:
            return type(e).__name__
    res = loop.run(main())
    return res, log

def check(s0: int, s1: int, s2: int, ra0: int, b0: int, b1: int) -> bool:
    """
    pre: 0 <= s0 <= 599 and 0 <= s1 <= 599 and 0 <= s2 <= 599
    pre: 0 <= ra0 <= 100
    pre: 0 <= b0 <= 100 and 0 <= b1 <= 100
    post: _ == True
    """
    res, log = run(s0, s1, s2, ra0, b0, b1)
    transient = lambda s: s == 0 or s >= 500 or s == 403 or s == 429
    # attempts: at most len(backoffs)+1
    if len(log) > 3:
        return False
    # after a 429 with Retry-After, the next attempt is not sooner than ra0
    if s0 == 429 and len(log) >= 2 and log[1] - log[0] < ra0:
        return False
    # non-transient 4xx escalate at once
    if 400 <= s0 < 500 and not transient(s0) and len(log) != 1:
        return False
    return True
