"""CrossHair launcher: short-circuiting off; CrossHair datetime off; floats modelled as reals only."""
import sys
import crosshair.libimpl.datetimelib as _dtl
_dtl.make_registrations = lambda: None
import crosshair.core as core
core.consider_shortcircuit = lambda *a, **k: None
import crosshair.libimpl.builtinslib as _bl
_bl._PYTYPE_TO_WRAPPER_TYPE[float] = ((_bl.RealBasedSymbolicFloat, 1.0),)
from crosshair.main import main
sys.exit(main())
