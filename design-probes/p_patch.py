import copy
from typing import Optional, Union
from kopf._cogs.structs import patches

Leaf = Union[None, int, str]

def rfc7386(target, patch):
    if isinstance(patch, dict):
        if not isinstance(target, dict):
            target = {}
        target = dict(target)
        for k, v in patch.items():
            if v is None:
                target.pop(k, None)
            else:
                target[k] = rfc7386(target.get(k), v)
        return target
    return patch

def norm(x):
    """Drop empty mappings (the property allows differences in their presence)."""
    if isinstance(x, dict):
        out = {k: norm(v) for k, v in x.items()}
        return {k: v for k, v in out.items() if v != {}}
    return x

def apply_ops(doc, ops):
    import jsonpatch
    return jsonpatch.apply_patch(doc, ops)

def mk(present: bool, nested: bool, leaf, sub_present: bool, subleaf):
    """A small template: {'a': leaf | {'b': subleaf}}"""
    d = {}
    if present:
        if nested:
            d['a'] = {'b': subleaf} if sub_present else {}
        else:
            d['a'] = leaf
    return d

def check(bp: bool, bn: bool, bl: int, bsp: bool, bsl: int,
          pp: bool, pn: bool, pl: Optional[int], psp: bool, psl: Optional[int]) -> bool:
    """
    post: _ == True
    """
    body = {'spec': mk(bp, bn, bl, bsp, bsl), 'metadata': {'name': 'x'}}
    patch = patches.Patch({'spec': mk(pp, pn, pl, psp, psl)})
    ops = patch.as_json_patch(body)
    got = apply_ops(copy.deepcopy(body), ops)
    want = rfc7386(body, dict(patch))
    return norm(got) == norm(want)
