import re
from kopf._cogs.configs import conventions

class K(conventions.StorageKeyFormingConvention):
    def __init__(self, prefix, v1, suffix):
        super().__init__(prefix=prefix, v1=v1)
        self._suffix = suffix
    def make_suffix(self, key):   # blake2b+base64 is the environment: any string of its documented shape
        return self._suffix

ALNUM = 'abcdefghijklmnopqrstuvwxyzABCDEFGHIJKLMNOPQRSTUVWXYZ0123456789'
def valid_name(s: str) -> bool:
    if not (1 <= len(s) <= 63): return False
    if s[0] not in ALNUM or s[-1] not in ALNUM: return False
    for c in s:
        if c not in ALNUM and c not in '-_.': return False
    return True

def v2_valid(key: str) -> bool:
    """
    pre: 1 <= len(key) <= 6
    pre: all(c in 'aZ0_./<>-' for c in key)
    post: _ == True
    """
    k = K('p.io', False, '-Ab')
    full = k.make_v2_key(key, max_length=4)
    name = full[len('p.io/'):]
    return valid_name4(name)

def valid_name4(s: str) -> bool:
    if not (1 <= len(s) <= 4): return False
    if s[0] not in ALNUM or s[-1] not in ALNUM: return False
    for c in s:
        if c not in ALNUM and c not in '-_.': return False
    return True

def v2_valid_inner(key: str) -> bool:
    """
    pre: 1 <= len(key) <= 6
    pre: all(c in 'aZ0_./<>-' for c in key)
    pre: key[0] in 'aZ0' and key[-1] in 'aZ0'
    post: _ == True
    """
    k = K('p.io', False, '-Ab')
    full = k.make_v2_key(key, max_length=4)
    name = full[len('p.io/'):]
    return valid_name4(name)

def v1_valid_inner(key: str) -> bool:
    """
    pre: 1 <= len(key) <= 6
    pre: all(c in 'aZ0_./<>-' for c in key)
    pre: key[0] in 'aZ0' and key[-1] in 'aZ0'
    post: _ == True
    """
    k = K('p.io', True, '-Ab')
    full = k.make_v1_key(key, max_length=9)   # 9 - len('p.io/') = 4 chars for the name
    name = full[len('p.io/'):]
    return valid_name4(name)
