import datetime
BASE = datetime.datetime(2020, 1, 1, tzinfo=datetime.timezone.utc)

def f(x: int, d: int) -> bool:
    """
    pre: 0 <= x <= 100000
    pre: 0 <= d <= 1000
    post: _ == True
    """
    now = BASE + datetime.timedelta(seconds=x)
    delayed = now + datetime.timedelta(seconds=d)
    later = BASE + datetime.timedelta(seconds=x + d)
    return (delayed > now) == (d > 0) and (later - now).total_seconds() == d and not (delayed > later)

def g(x: int) -> bool:
    """
    pre: 0 <= x <= 100000
    post: _ == True
    """
    now = BASE + datetime.timedelta(seconds=x)
    s = now.isoformat(timespec='microseconds')
    import iso8601
    back = iso8601.parse_date(s, default_timezone=None)
    return back == now
