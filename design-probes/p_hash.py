from kopf._cogs.structs import references
RESOURCE = references.Resource('g', 'v1', 'things', namespaced=True)

def f(x: int) -> bool:
    """
    pre: 0 <= x <= 1
    post: _ == True
    """
    u = 'a' if x == 0 else 'b'
    key = (RESOURCE, u)
    d = {}
    d[key] = 1
    h = RESOURCE.__hash__()
    print(type(h), type(hash(('g','v1','things'))))
    _ = d[key]
    del d[key]
    return True
