import asyncio
from symloop import SymLoop
from kopf._cogs.structs import references
RESOURCE = references.Resource('g', 'v1', 'things', namespaced=True)

def f(x: int, t: int) -> bool:
    """
    pre: 0 <= x <= 1
    pre: 1 <= t <= 3
    post: _ == True
    """
    u = 'a' if x == 0 else 'b'
    d = {}
    loop = SymLoop()
    async def w(key):
        q = asyncio.Queue()
        try:
            while True:
                try:
                    await asyncio.wait_for(q.get(), timeout=t)
                except asyncio.TimeoutError:
                    break
        finally:
            del d[key]
    async def main():
        key = (RESOURCE, u)
        d[key] = 1
        await asyncio.create_task(w(key))
    loop.run(main())
    return True
