"""Probe: the real daemons._timer under SymLoop with symbolic durations (T-symbolic shim)."""
import asyncio
import logging

import kopf
from kopf._cogs.clients import api
from kopf._cogs.configs import configuration
from kopf._cogs.structs import ephemera, references
from kopf._core.actions import lifecycles, progression
from kopf._core.engines import indexing
from kopf._core.intents import registries
from kopf._core.reactor import inventory, processing

import shimdt
from symloop import SymLoop

logging.disable(logging.CRITICAL)
RESOURCE = references.Resource('kopf.dev', 'v1', 'kopfexamples', namespaced=True)
BODY = {'apiVersion': 'kopf.dev/v1', 'kind': 'KopfExample',
        'metadata': {'name': 'n', 'namespace': 'ns', 'uid': 'u1', 'resourceVersion': '10'}, 'spec': {'x': 1}}


def run(interval, sharp, durs, fail0, delay0, initial_delay=None, ties=()):
    runs = []
    registry = registries.OperatorRegistry()
    loop = SymLoop()
    done = asyncio.Event()

    @kopf.timer('kopfexamples', id='t', registry=registry, interval=interval, sharp=sharp,
                initial_delay=initial_delay)
    async def t(retry, **kw):
        i = len(runs)
        s = loop.time()
        d = durs[i] if i < len(durs) else 0
        if d > 0:
            await asyncio.sleep(d)
        runs.append((s, loop.time()))
        if len(runs) >= 3:
            done.set()
        if i == 0 and fail0:
            raise kopf.TemporaryError("boo", delay=delay0)

    settings = configuration.OperatorSettings()
    memories = inventory.ResourceMemories()
    indexers = indexing.OperatorIndexers()

    async def fake_patch(url, *, headers, payload, settings, logger, timeout=None):
        return {'metadata': {'resourceVersion': '11'}}

    async def main():
        orig = (api.patch, progression.datetime, progression.iso8601)
        api.patch = fake_patch
        progression.datetime = shimdt.datetime_module
        progression.iso8601 = shimdt.iso8601_module
        try:
            await processing.process_resource_event(
                lifecycle=lifecycles.all_at_once, indexers=indexers, registry=registry,
                settings=settings, memories=memories, memobase=ephemera.Memo(),
                resource=RESOURCE, raw_event={'type': 'ADDED', 'object': BODY},
                event_queue=asyncio.Queue(), no_throttling=True)
            await done.wait()
            tasks = [x for x in asyncio.all_tasks() if x is not asyncio.current_task()]
            for x in tasks:
                x.cancel()
            await asyncio.gather(*tasks, return_exceptions=True)
        finally:
            api.patch, progression.datetime, progression.iso8601 = orig

    loop.run(main(), max_steps=20000, ties=ties)
    return runs


def check_nonsharp(d0: int, d1: int, fail0: bool, delay0: int) -> bool:
    """
    pre: 0 <= d0 and 0 <= d1
    pre: 1 <= delay0
    post: _ == True
    """
    runs = run(5, False, [d0, d1], fail0, delay0)
    (s0, e0), (s1, e1), (s2, e2) = runs[:3]
    ok = s1 >= e0 and s2 >= e1
    if fail0:
        ok = ok and s1 == e0 + delay0
    else:
        ok = ok and s1 == e0 + 5
    ok = ok and s2 == e1 + 5
    return ok


def check_sharp(d0: int, d1: int) -> bool:
    """
    pre: 0 <= d0 and 0 <= d1
    post: _ == True
    """
    runs = run(5, True, [d0, d1], False, 1)
    (s0, e0), (s1, e1), (s2, e2) = runs[:3]
    # next start: the first grid point s0 + 5k that is > ... at or after e0 (strictly after if on grid)
    ok = s1 >= e0 and (s1 - s0) % 5 == 0 and s1 - e0 <= 5 and s1 > e0 - 1
    ok = ok and s2 >= e1 and (s2 - s1) % 5 == 0 and s2 - e1 <= 5
    return ok


if __name__ == '__main__':
    print(run(5, False, [2, 7], False, 1))
    print(run(5, True, [2, 7], False, 1))
    print(run(5, False, [2, 7], True, 3))
