"""Probe: a minimal virtual-time asyncio loop whose clock values may be symbolic."""
import asyncio
import collections
from asyncio import events

try:
    from crosshair.util import ControlFlowException as _CF, NotDeterministic as _ND
    _CONTROL = (_CF, _ND)
except ImportError:  # plain concrete replays
    _CONTROL = ()


class SymLoop(asyncio.AbstractEventLoop):
    def __init__(self):
        self._ready = collections.deque()
        self._timers = []
        self._now = 0
        self._closed = False
        self.errors = []
        self.steps = 0
        self._abort = None

    # --- clock & scheduling
    def time(self):
        return self._now

    def call_soon(self, callback, *args, context=None):
        h = asyncio.Handle(callback, args, self, context)
        self._ready.append(h)
        return h

    call_soon_threadsafe = call_soon

    def call_later(self, delay, callback, *args, context=None):
        return self.call_at(self._now + delay, callback, *args, context=context)

    def call_at(self, when, callback, *args, context=None):
        h = asyncio.TimerHandle(when, callback, args, self, context)
        self._timers.append(h)
        return h

    def _timer_handle_cancelled(self, handle):
        pass

    # --- factories
    def create_future(self):
        return asyncio.Future(loop=self)

    def create_task(self, coro, *, name=None, context=None):
        return asyncio.Task(self._guarded(coro), loop=self, name=name, context=context)

    async def _guarded(self, coro):
        try:
            return await coro
        except BaseException as e:
            if _CONTROL and isinstance(e, _CONTROL) and self._abort is None:
                self._abort = e
            raise

    # --- misc
    def get_debug(self):
        return False

    def is_running(self):
        return True

    def is_closed(self):
        return self._closed

    def call_exception_handler(self, context):
        self.errors.append(context)

    def default_exception_handler(self, context):
        self.errors.append(context)

    # --- the driver: a replica of BaseEventLoop._run_once() over virtual time
    def run(self, coro, max_steps=10_000, ties=()):
        events._set_running_loop(self)
        self._ties = list(ties)
        self._tie_idx = 0
        try:
            task = self.create_task(coro)
            while not task.done():
                self._run_once(max_steps)
            return task.result()
        finally:
            events._set_running_loop(None)

    def _tie(self):
        """An arbitrary (solver-chosen) order among timers due at the very same instant."""
        if self._tie_idx < len(self._ties):
            b = self._ties[self._tie_idx]
            self._tie_idx += 1
            return b
        return False

    def _run_once(self, max_steps):
        live = [t for t in self._timers if not t._cancelled]
        if not self._ready:
            if not live:
                raise RuntimeError("deadlock: nothing to run")
            earliest = live[0]._when
            for t in live[1:]:
                if t._when < earliest:
                    earliest = t._when
            if earliest > self._now:
                self._now = earliest
        # Move ALL timers that are due now into the ready queue (as asyncio does), earliest first;
        # the order among equal deadlines is arbitrary (heapq is not stable): a symbolic choice.
        due = [t for t in live if t._when <= self._now]
        rest = [t for t in live if not (t._when <= self._now)]
        while due:
            best = 0
            for i in range(1, len(due)):
                if due[i]._when < due[best]._when:
                    best = i
                elif due[i]._when == due[best]._when and self._tie():
                    best = i
            self._ready.append(due.pop(best))
        self._timers = rest
        # Run only the handles that were ready at the start of this iteration.
        for _ in range(len(self._ready)):
            self.steps += 1
            if self.steps > max_steps:
                raise RuntimeError("step budget exceeded (livelock?)")
            h = self._ready.popleft()
            if not h._cancelled:
                h._run()
            if self._abort is not None:
                raise self._abort
            for ctx in self.errors:
                exc = ctx.get('exception')
                if _CONTROL and isinstance(exc, _CONTROL):
                    raise exc
