"""Probe: one real process_resource_event() call from a symbolic object state, fake API below api.patch."""
import asyncio
import copy
import json
import logging

import kopf
from kopf._cogs.clients import api, errors
from kopf._cogs.configs import configuration
from kopf._cogs.structs import ephemera, references
from kopf._core.actions import lifecycles
from kopf._core.engines import indexing
from kopf._core.intents import registries
from kopf._core.reactor import inventory, processing

from symloop import SymLoop

logging.disable(logging.CRITICAL)
RESOURCE = references.Resource('kopf.dev', 'v1', 'kopfexamples', namespaced=True,
                               subresources=frozenset())
FIN = 'kopf.zalando.org/KopfFinalizerMarker'
LHC = 'kopf.zalando.org/last-handled-configuration'


def merge(target, patch):
    if isinstance(patch, dict):
        target = dict(target) if isinstance(target, dict) else {}
        for k, v in patch.items():
            if v is None:
                target.pop(k, None)
            else:
                target[k] = merge(target.get(k), v)
        return target
    return patch


def run(evtype: int, deleting: bool, has_fin: bool, handled: bool, changed: bool, listed: bool,
        with_delete_handler: bool):
    calls = []
    requests = []
    registry = registries.OperatorRegistry()

    @kopf.on.create('kopfexamples', id='c', registry=registry)
    async def c(**kw): calls.append(('create', kw['reason']))

    @kopf.on.update('kopfexamples', id='u', registry=registry)
    async def u(**kw): calls.append(('update', kw['reason']))

    @kopf.on.resume('kopfexamples', id='r', registry=registry)
    async def r(**kw): calls.append(('resume', kw['reason']))

    if with_delete_handler:
        @kopf.on.delete('kopfexamples', id='d', registry=registry)
        async def d(**kw): calls.append(('delete', kw['reason']))

    spec = {'x': 2 if changed else 1}
    meta = {'name': 'n', 'namespace': 'ns', 'uid': 'u1', 'resourceVersion': '10', 'annotations': {}}
    if deleting:
        meta['deletionTimestamp'] = '2020-01-01T00:00:00Z'
    if has_fin:
        meta['finalizers'] = [FIN, 'other/fin']
    else:
        meta['finalizers'] = ['other/fin']
    if handled:
        meta['annotations'][LHC] = json.dumps({'spec': {'x': 1}}) + '\n'
    body = {'apiVersion': 'kopf.dev/v1', 'kind': 'KopfExample', 'metadata': meta, 'spec': spec}
    server = {'obj': copy.deepcopy(body), 'rv': 10}

    async def fake_patch(url, *, headers, payload, settings, logger, timeout=None):
        requests.append((headers['Content-Type'], copy.deepcopy(payload)))
        if headers['Content-Type'].startswith('application/merge-patch'):
            server['obj'] = merge(server['obj'], payload)
        else:
            import jsonpatch
            try:
                server['obj'] = jsonpatch.apply_patch(server['obj'], payload)
            except jsonpatch.JsonPatchTestFailed:
                raise errors.APIUnprocessableEntityError(None, status=422, headers={})
        server['rv'] += 1
        server['obj']['metadata']['resourceVersion'] = str(server['rv'])
        return copy.deepcopy(server['obj'])

    settings = configuration.OperatorSettings()
    settings.persistence.finalizer = FIN
    memories = inventory.ResourceMemories()
    indexers = indexing.OperatorIndexers()
    raw_type = None if listed else ('ADDED', 'MODIFIED', 'DELETED')[evtype]
    loop = SymLoop()

    async def main():
        orig = api.patch
        api.patch = fake_patch
        try:
            return await processing.process_resource_event(
                lifecycle=lifecycles.all_at_once, indexers=indexers, registry=registry,
                settings=settings, memories=memories, memobase=ephemera.Memo(),
                resource=RESOURCE, raw_event={'type': raw_type, 'object': body},
                event_queue=asyncio.Queue(), no_throttling=True)
        finally:
            api.patch = orig

    rv = loop.run(main())
    return calls, requests, server['obj'], rv


def check(evtype: int, deleting: bool, has_fin: bool, handled: bool, changed: bool, listed: bool,
          wdh: bool) -> bool:
    """
    pre: 0 <= evtype <= 2
    post: _ == True
    """
    calls, requests, obj, rv = run(evtype, deleting, has_fin, handled, changed, listed, wdh)
    kinds = {k for k, _ in calls}
    gone = (not listed) and evtype == 2
    if deleting and ({'create', 'update'} & kinds):
        return False
    if 'delete' in kinds and not (deleting and has_fin and not gone):
        return False
    if gone and kinds:
        return False
    if 'other/fin' not in obj['metadata'].get('finalizers', []):
        return False
    return True


if __name__ == '__main__':
    for args in [(0, False, False, False, False, False, True), (1, False, True, True, True, False, True),
                 (1, True, True, True, False, False, True), (0, False, True, True, False, True, True)]:
        print(args, run(*args))
