"""Probe C07: real watcher/worker + real process_resource_event; echo of own PATCH delayed symbolically."""
import asyncio
import copy
import json
import logging

import kopf
from kopf._cogs.clients import api
from kopf._cogs.configs import configuration
from kopf._cogs.structs import ephemera, references
from kopf._core.actions import lifecycles, progression
from kopf._core.engines import indexing
from kopf._core.intents import registries
from kopf._core.reactor import inventory, processing, queueing

import shimdt
from p_proc import merge
from symloop import SymLoop

logging.disable(logging.CRITICAL)
RESOURCE = references.Resource('kopf.dev', 'v1', 'kopfexamples', namespaced=True)
LHC = 'kopf.zalando.org/last-handled-configuration'
EOSM = object()


def run(echo: int, foreign_at: int, timeout: int, edit_at: int, ties=()):
    loop = SymLoop()
    seen = []      # (time, handler, resourceVersion seen)
    patched = []   # (time, resourceVersion returned)
    registry = registries.OperatorRegistry()

    @kopf.on.create('kopfexamples', id='c', registry=registry)
    async def c(body, **kw):
        seen.append((loop.time(), 'create', int(body['metadata']['resourceVersion'])))

    @kopf.on.update('kopfexamples', id='u', registry=registry)
    async def u(body, **kw):
        seen.append((loop.time(), 'update', int(body['metadata']['resourceVersion'])))

    @kopf.on.event('kopfexamples', id='e', registry=registry)
    async def e(body, **kw):
        seen.append((loop.time(), 'event', int(body['metadata']['resourceVersion'])))

    server = {'obj': {'apiVersion': 'kopf.dev/v1', 'kind': 'KopfExample',
                      'metadata': {'name': 'n', 'namespace': 'ns', 'uid': 'u1', 'resourceVersion': '1'},
                      'spec': {'x': 1}}, 'rv': 1}
    feed = asyncio.Queue()

    log = asyncio.Queue()

    def emit_later(delay, typ):
        # ordered watch stream: changes are delivered in version order, each `echo` late
        log.put_nowait((loop.time(), {'type': typ, 'object': copy.deepcopy(server['obj'])}))

    async def deliverer():
        while True:
            at, ev = await log.get()
            due = at + echo
            if due > loop.time():
                await asyncio.sleep(due - loop.time())
            await feed.put(ev)

    def write(fn):
        fn(server['obj'])
        server['rv'] += 1
        server['obj']['metadata']['resourceVersion'] = str(server['rv'])

    async def fake_patch(url, *, headers, payload, settings, logger, timeout=None):
        if isinstance(payload, list):
            import jsonpatch
            server['obj'] = jsonpatch.apply_patch(server['obj'], payload)
        else:
            server['obj'] = merge(server['obj'], payload)
        server['rv'] += 1
        server['obj']['metadata']['resourceVersion'] = str(server['rv'])
        patched.append((loop.time(), server['rv']))
        emit_later(echo, 'MODIFIED')          # the echo of our own write, late by `echo`
        return copy.deepcopy(server['obj'])

    async def fake_stream(**_):
        while True:
            ev = await feed.get()
            if ev is EOSM:
                return
            yield ev

    settings = configuration.OperatorSettings()
    settings.persistence.consistency_timeout = timeout
    settings.queueing.idle_timeout = 1
    memories = inventory.ResourceMemories()
    indexers = indexing.OperatorIndexers()

    async def processor(**kw):
        return await processing.process_resource_event(
            lifecycle=lifecycles.all_at_once, indexers=indexers, registry=registry,
            settings=settings, memories=memories, memobase=ephemera.Memo(),
            resource=RESOURCE, event_queue=asyncio.Queue(), no_throttling=True, **kw)

    async def foreign():
        # a foreign status-only edit (non-essential) and then an essential edit, at symbolic instants
        if foreign_at > 0:
            await asyncio.sleep(foreign_at)
        write(lambda o: o.setdefault('status', {}).__setitem__('f', 1))
        emit_later(0, 'MODIFIED')

    async def editor():
        if edit_at > 0:
            await asyncio.sleep(edit_at)
        write(lambda o: o['spec'].__setitem__('x', 2))
        emit_later(0, 'MODIFIED')

    async def main():
        orig = (api.patch, queueing.watching.infinite_watch, progression.datetime, progression.iso8601)
        api.patch = fake_patch
        queueing.watching.infinite_watch = fake_stream
        progression.datetime = shimdt.datetime_module
        progression.iso8601 = shimdt.iso8601_module
        try:
            w = asyncio.create_task(queueing.watcher(
                namespace=None, settings=settings, resource=RESOURCE, processor=processor))
            emit_later(0, 'ADDED')
            dl = asyncio.create_task(deliverer())
            t1 = asyncio.create_task(foreign())
            t2 = asyncio.create_task(editor())
            await asyncio.sleep(foreign_at + edit_at + 3 * echo + 3 * timeout + 10)
            w.cancel(); dl.cancel()
            res = await asyncio.gather(w, t1, t2, dl, return_exceptions=True)
            for r in res:
                if isinstance(r, Exception):
                    import traceback; traceback.print_exception(type(r), r, r.__traceback__); c = r.__cause__
                    if c: traceback.print_exception(type(c), c, c.__traceback__)
        finally:
            api.patch, queueing.watching.infinite_watch, progression.datetime, progression.iso8601 = orig

    loop.run(main(), max_steps=50000, ties=ties)
    return seen, patched


def oracle(seen, patched, timeout):
    for t, h, v in seen:
        if h == 'event':
            continue
        for tp, p in patched:
            if tp < t and not (v >= p or t >= tp + timeout):
                return False
    return True


def check(echo: int, foreign_at: int, timeout: int, edit_at: int) -> bool:
    """
    pre: 0 <= echo and 0 <= foreign_at and 0 <= edit_at
    pre: 1 <= timeout
    post: _ == True
    """
    seen, patched = run(echo, foreign_at, timeout, edit_at)
    return oracle(seen, patched, timeout)


if __name__ == '__main__':
    for args in [(0, 1, 5, 2), (3, 1, 5, 2), (9, 1, 5, 2), (3, 1, 5, 20)]:
        s, p = run(*args)
        print(args, 'seen', s, 'patched', p, oracle(s, p, args[2]))
