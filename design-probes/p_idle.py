import copy, json
from p_daemon import scenario, BODY
LHC = 'kopf.zalando.org/last-handled-configuration'
b = copy.deepcopy(BODY); b['metadata']['annotations'] = {LHC: json.dumps({'spec': {'x': 1}})}
gone = copy.deepcopy(b); gone['metadata']['deletionTimestamp'] = '2020-01-01T00:00:00Z'
print("idle-only timer; non-essential event marks deletion:")
for e in scenario('timer', [(0, 'ADDED', b), (30, 'MODIFIED', gone)], idle=10):
    print("  ", e)
