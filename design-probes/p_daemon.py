"""Probe: daemon/timer lifecycle on real process_resource_event under SymLoop (concrete)."""
import asyncio
import copy
import logging

import kopf
from kopf._cogs.clients import api, errors
from kopf._cogs.configs import configuration
from kopf._cogs.structs import ephemera, references
from kopf._core.actions import lifecycles
from kopf._core.engines import indexing
from kopf._core.intents import registries
from kopf._core.reactor import inventory, processing

from symloop import SymLoop
from p_proc import merge

logging.disable(logging.CRITICAL)
RESOURCE = references.Resource('kopf.dev', 'v1', 'kopfexamples', namespaced=True)


def scenario(kind: str, events, horizon=50, **timer_kw):
    log = []
    registry = registries.OperatorRegistry()
    loop = SymLoop()

    if kind == 'daemon':
        @kopf.daemon('kopfexamples', id='d', registry=registry)
        async def d(stopped, **kw):
            log.append(('enter', loop.time()))
            try:
                await stopped.wait()
            finally:
                log.append(('exit', loop.time(), str(stopped.reason)))
    else:
        @kopf.timer('kopfexamples', id='t', registry=registry, **timer_kw)
        async def t(**kw):
            log.append(('tick', loop.time()))

    settings = configuration.OperatorSettings()
    memories = inventory.ResourceMemories()
    indexers = indexing.OperatorIndexers()
    server = {'rv': 10}

    async def fake_patch(url, *, headers, payload, settings, logger, timeout=None):
        server['rv'] += 1
        return {'metadata': {'resourceVersion': str(server['rv'])}}

    async def main():
        orig = api.patch
        api.patch = fake_patch
        try:
            for at, raw_type, body in events:
                if at > loop.time():
                    await asyncio.sleep(at - loop.time())
                log.append(('event', loop.time(), raw_type))
                await processing.process_resource_event(
                    lifecycle=lifecycles.all_at_once, indexers=indexers, registry=registry,
                    settings=settings, memories=memories, memobase=ephemera.Memo(),
                    resource=RESOURCE, raw_event={'type': raw_type, 'object': body},
                    event_queue=asyncio.Queue(), no_throttling=True)
            await asyncio.sleep(horizon)
            tasks = [t for t in asyncio.all_tasks() if t is not asyncio.current_task()]
            log.append(('alive-at-end', [t.get_name() for t in tasks]))
            for t in tasks:
                t.cancel()
            await asyncio.gather(*tasks, return_exceptions=True)
        finally:
            api.patch = orig

    loop.run(main(), max_steps=5000)
    return log


BODY = {'apiVersion': 'kopf.dev/v1', 'kind': 'KopfExample',
        'metadata': {'name': 'n', 'namespace': 'ns', 'uid': 'u1', 'resourceVersion': '10'}, 'spec': {'x': 1}}

if __name__ == '__main__':
    print("daemon, DELETED without deletionTimestamp:")
    for e in scenario('daemon', [(0, 'ADDED', BODY), (5, 'DELETED', BODY)]):
        print("  ", e)
    print("daemon, DELETED with deletionTimestamp:")
    gone = copy.deepcopy(BODY); gone['metadata']['deletionTimestamp'] = '2020-01-01T00:00:00Z'
    for e in scenario('daemon', [(0, 'ADDED', BODY), (5, 'DELETED', gone)]):
        print("  ", e)
    print("idle-only timer, then marked for deletion:")
    try:
        for e in scenario('timer', [(0, 'ADDED', BODY), (30, 'MODIFIED', gone)], idle=10):
            print("  ", e)
    except RuntimeError as ex:
        print("  RuntimeError:", ex)
