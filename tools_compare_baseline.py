"""Compare a junit xml of the repository's test suite against /root/.vp/BASELINE.json (stable_pass)."""
import json
import sys
import xml.etree.ElementTree as ET

base = json.load(open('/root/.vp/BASELINE.json'))
stable = base['stable_pass']
if isinstance(stable, str):
    import ast
    stable = ast.literal_eval(stable)
stable = set(stable)
tree = ET.parse(sys.argv[1])
passed, failed = set(), set()
for tc in tree.iter('testcase'):
    name = f"{tc.get('classname')}::{tc.get('name')}"
    bad = any(ch.tag in ('failure', 'error', 'skipped') for ch in tc)
    (failed if bad else passed).add(name)
missing = stable - passed
print(f'baseline stable_pass={len(stable)} passed_now={len(passed)} failed_now={len(failed)} baseline_tests_not_passing={len(missing)}')
for m in sorted(missing)[:40]:
    print('  NOT PASSING:', m)
sys.exit(1 if missing else 0)
