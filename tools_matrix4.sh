#!/bin/sh
# tools_matrix4.sh [jobs] -- development aid (round 6): re-run the detecting quick-tier harness of every round-6 seed, and of the
# earlier seeds whose detecting harness was edited in round 6, against a scratch worktree carrying the change (tools_mutrun.sh);
# one line per seed in /tmp/mutev/matrix4.summary; every worktree is removed as soon as its run is over.
export VERIF_JOBS="${1:-6}"
cd "${VROOT:-/verif}"
out=/tmp/mutev/matrix4.summary
mkdir -p /tmp/mutev; : > "$out"
while read -r name prop only; do
  [ -z "$name" ] && continue
  d=$(ls -d seeded/$name-* 2>/dev/null | head -1); d=$(basename "$d")
  [ -z "$d" ] && { echo "$name: no such seed" >> "$out"; continue; }
  if [ -n "$only" ]; then ./tools_mutrun.sh "$d" "$prop" quick --only $only >> "$out" 2>&1; else ./tools_mutrun.sh "$d" "$prop" quick >> "$out" 2>&1; fi
  git -C /repo worktree remove --force "/tmp/mut/$d" 2>/dev/null
done <<'EOF'
X01 C01 h_patched
X02 C07 h_step
X03 C14 h_resume
X04 C16 h_diffbase
X05 C14 h_resume
X06 C06 h_step
X07 C07 h_worker
X08 C08 h_plan
X09 C09 h_stop_stage
X10 C10 h_laws
X11 C02 h_resume_subs
X12 C12 h_request
X13 C13 h_event h_keepalive
X14 C07 h_worker
X15 C15 h_match
X16 C16 h_roundtrip
X17 C17 h_gate
X18 C18 h_patch
X19 C19 h_watch
X20 C20 h_operator
S06 C09 h_stop_stage
S09 C09 h_stop_stage
S16 C16 h_roundtrip
U16 C16 h_roundtrip
T17 C17 h_gate
S18 C18 h_patch
S15 C15 h_match
U15 C15 h_match
S14 C14 h_resume
T02 C14 h_resume
V14 C14 h_resume
V02 C07 h_step
S07 C07 h_worker
W07 C07 h_worker
S01 C01 h_stream
T01 C01 h_stream
S19 C19 h_orchestrator
S20 C20 h_lifecycle
Y04 C04 h_field_view
Y05 C05 h_detect
Y06 C06 h_history
Y11 C11 h_table
Y12 C12 h_auth
Y13 C13 h_event
Y19 C19 h_adjust_peering
U13 C13 h_cluster
V20 C13 h_cluster
EOF
git -C /repo worktree prune
cat "$out"
