"""Regenerate MANIFEST.json from the property modules present under vkopf/props (keeps it valid at all times)."""
import importlib
import json
import os
import sys

ROOT = os.path.dirname(os.path.abspath(__file__))
sys.path.insert(0, ROOT)
ALL = [f'C{i:02d}' for i in range(1, 21)]
NA_REASONS = {}


def main():
    checks, na = [], []
    for pid in ALL:
        path = os.path.join(ROOT, 'vkopf', 'props', pid.lower() + '.py')
        if not os.path.exists(path):
            na.append({'property_id': pid, 'reason': NA_REASONS.get(pid, 'harness not built yet in this round (planned in DESIGN.md section 4); no claim is made')})
            continue
        mod = importlib.import_module(f'vkopf.props.{pid.lower()}')
        meta = getattr(mod, 'META', {})
        checks.append({
            'property_id': pid,
            'quick_cmd': f'./vcheck run {pid} --tier quick',
            'thorough_cmd': f'./vcheck run {pid} --tier thorough',
            'evidence_file': f'evidence/{pid}.json',
            'replay_cmd_template': './vcheck replay {path}',
            'engine': 'vkopf',
            'technique': meta.get('technique', 'bounded symbolic execution of the real kopf code (CrossHair 0.0.110 + z3): exhaustive path exploration '
                                  'per obligation cell, counterexamples replayed concretely'),
            'level_claimed': {
                'category': 'model_checking',
                'text': meta.get('level_text', 'Each obligation is a harness over the real kopf functions whose inputs/timings/scripts are symbolic; '
                                 'CrossHair explores every feasible path and z3 decides the oracle on each ("Confirmed over all paths" = '
                                 'holds for all values within the stated bounds); anything not exhausted is reported as inconclusive.'),
                'design_ref': f'DESIGN.md section 4 ({pid})',
            },
            'level_note': 'Bounds: ' + meta.get('bounds', '') + ' Outside the claim: ' + meta.get('outside', '') +
                          ' Stubs: ' + '; '.join(meta.get('stubs', [])) + '. Trusted: CrossHair/z3, the SymLoop replica of asyncio._run_once, '
                          'tool adjustments listed in DESIGN.md section 2.',
        })
    manifest = {
        'version': 1,
        'setup_cmd': './vcheck setup',
        'hooks': {'guard': 'NOLAR_KOPF_VERIF', 'enable': 'no source hooks are needed: stubs are installed by rebinding module attributes at run time',
                  'baseline_off_cmd': 'cd /repo && /venv/bin/python -m pytest -ra -q -p no:cacheprovider --timeout=900 --continue-on-collection-errors',
                  'source_commits': [], 'add_only': True},
        'engines': [{'name': 'vkopf', 'path': 'vkopf/', 'serves_properties': [c['property_id'] for c in checks],
                     'kind_free_text': 'CrossHair (symbolic execution of Python) + z3, virtual-time asyncio loop, fake API server stubs'}],
        'checks': checks,
        'not_applicable': na,
        'notes': 'Exit codes: 0 held on everything explored (inconclusive obligations are listed, never counted as discharged); '
                 '1 VIOLATION (replayed concretely); 3 harness error. Known findings: known_findings.json.',
    }
    with open(os.path.join(ROOT, 'MANIFEST.json'), 'w') as f:
        json.dump(manifest, f, indent=1)
    print('checks:', [c['property_id'] for c in checks], 'n/a:', [n['property_id'] for n in na])


if __name__ == '__main__':
    main()
