#!/bin/sh
# tools_matrix.sh [jobs] -- development aid: re-run the detecting quick-tier harness of every seeded change against a scratch
# worktree carrying the change (tools_mutrun.sh), one line per seed in /tmp/mutev/matrix.summary; worktrees are removed.
export VERIF_JOBS="${1:-6}"
cd "${VROOT:-/verif}"
out=/tmp/mutev/matrix.summary
mkdir -p /tmp/mutev; : > "$out"
run() {
  name="$1"; shift
  ./tools_mutrun.sh "$name" "$@" >> "$out" 2>&1
}
fin() { git -C /repo worktree remove --force "/tmp/mut/$1" 2>/dev/null; }
while read -r name prop only; do
  [ -z "$name" ] && continue
  if [ -n "$only" ]; then run "$name" "$prop" quick --only $only; else run "$name" "$prop" quick; fi
  # keep the worktree if the next line uses the same seed
  echo "$name" > /tmp/mutev/.last
done <<'EOF'
S01-recheck-dropped C01 h_stream
S02-subrefs-dropped-on-children-retry C02 h_loop
S03-remaining-patch-never-cleared C03
S03-remaining-patch-never-cleared C06 h_history
S04-diffbase-marker-dropped C04 h_other_operator
S05-create-keeps-initial C05
S06-cancel-window-shortened C06 h_daemon_release
S06-cancel-window-shortened C09 h_stop_stage
S07-barrier-from-loop-start C07 h_worker
S08-ops-from-stale-body C08 h_interference
S09-cancel-window-shortened C09 h_stop_stage
S10-idle-recheck-dropped C10
S11-timeout-uses-seconds-attr C11 h_table
S12-throttle-reset-on-skipped-pass C12 h_throttled_unit
S13-keepalive-floor-10 C13
S14-finished-resume-not-repurposed C14
S15-null-equals-absent C15
S16-drs-mark-after-cut C16 h_roundtrip
S17-reverse-index-first-only C17 h_index_ops
S18-nulls-leak-on-type-change C18 h_patch
S19-orchestrator-lock-narrowed C19 h_orchestrator
S20-startup-failure-forgotten C20
T01-scheduler-queue-bounded C01 h_stream
T02-finished-not-repurposed C14
T03-idle-recheck-dropped C01 h_stream
T04-empty-essence-falsy C05 h_event
T05-empty-essence-falsy C05 h_event
T06-excluded-daemon-breaks-loop C06 h_two_daemons
T07-touch-version-discarded C07 h_own_write_version
T08-remaining-patch-sticky C03
T09-killer-skips-flagged C09 h_history
T12-invalidate-wait-nested C12 h_auth
T14-initial-dropped-on-diff C05 h_detect
T17-gate-skipped-without-toggle C17 h_gate
T19-stale-group-resources C19 h_revise
T20-killer-skips-flagged-on-exit C20
U10-reset-needs-diffbase C10
U11-activity-outcomes-accumulated C11 h_activity
U13-autoclean-after-sleep C13
U15-callback-accepts-whole-filter C15
U16-purge-twice-restores C16 h_roundtrip
U18-webhook-field-old-or-new C18 h_select
EOF
for d in /tmp/mut/*; do [ -d "$d" ] && git -C /repo worktree remove --force "$d"; done
git -C /repo worktree prune
cat "$out"
