#!/usr/bin/env python3
"""Development aid: per-obligation cost from an evidence file (tools_times.py C19 [dir])."""
import json, sys
pid = sys.argv[1]
d = json.load(open(f'{sys.argv[2] if len(sys.argv) > 2 else "/verif/evidence"}/{pid}.json'))
c = d['coverage']
print(pid, 'wall', d.get('wall_s'), 'obligations', c['obligations'], 'discharged', c['discharged'])
for e in sorted(c['per_obligation'], key=lambda e: -e.get('cpu_s', 0)):
    print(f"  {e.get('cpu_s', 0):7.1f}s {e['status']:14s} paths={e['paths']:5d} {e['obligation'][:150]}", e.get('task_faults', ''))
