"""Print the as-built table of harnesses per property (for DESIGN.md section 8)."""
import collections
import importlib
import sys
sys.path.insert(0, '/verif')
for i in range(1, 21):
    pid = f'C{i:02d}'
    m = importlib.import_module(f'vkopf.props.{pid.lower()}')
    obs = m.obligations()
    per = collections.OrderedDict()
    for o in obs:
        d = per.setdefault(o.fn, {'quick': 0, 'thorough': 0, 'twins': set(), 'kf': set()})
        if o.main:
            for t in set(o.tiers) | ({'thorough'} if 'quick' in o.tiers else set()):
                d[t] += 1
        d['twins'] |= set(o.twins)
        if o.finding:
            d['kf'].add(o.finding)
    cells = '; '.join(f"`{fn}` {d['quick']}q/{d['thorough']}t" + (f" twins[{','.join(sorted(d['twins']))}]" if d['twins'] else '') +
                      (f" witness[{','.join(sorted(d['kf']))}]" if d['kf'] else '') for fn, d in per.items())
    print(f'| {pid} | {cells} |')
