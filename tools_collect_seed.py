"""Copy a confirmed seeded change (sub-agent output + my verification result) into /verif/seeded/<name>/."""
import json, os, shutil, sys
name, prop, src, needs = sys.argv[1], sys.argv[2], sys.argv[3], sys.argv[4]
dst = f'/verif/seeded/{name}'
os.makedirs(dst, exist_ok=True)
for f in ('patch.diff', 'demo_test.py', 'notes.md'):
    if os.path.exists(os.path.join(src, f)):
        shutil.copy(os.path.join(src, f), os.path.join(dst, f))
res = json.loads(open(f'/tmp/vs/{os.path.basename(src)[:3]}.result').read().strip().splitlines()[-1]) if len(sys.argv) < 6 else json.loads(open(sys.argv[5]).read().strip().splitlines()[-1])
meta = {'property': prop, 'origin': 'independent sub-agent (given only the property text and a scratch worktree)',
        'needs_to_manifest': needs,
        'confirmed_by_me': {'how': 'tools_verify_seed.sh in a fresh scratch worktree of /repo HEAD (removed afterwards): demo on the unchanged tree, '
                                   'patch applied, demo again, full repository test suite compared with BASELINE.json',
                            'demo_on_unchanged_tree_exit': res.get('demo_clean'), 'demo_with_change_exit': res.get('demo_patched'),
                            'baseline_tests_not_passing_with_change': res.get('suite_missing')},
        'files_changed': sorted({l.split(' b/')[-1].strip() for l in open(os.path.join(dst, 'patch.diff')) if l.startswith('diff --git')})}
json.dump(meta, open(os.path.join(dst, 'meta.json'), 'w'), indent=1)
print(dst, meta['confirmed_by_me'])
