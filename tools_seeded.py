"""Run registered checks against a seeded breaking change (seeded/<name>/patch.diff), then restore /repo.

usage: tools_seeded.py <seeded-dir> [--tier quick|thorough] [--props C01 C07 ...] [--only fn ...]
The patch is applied with `git -C /repo apply`, the checks are run from /verif, and the tree is restored with
`git -C /repo checkout -- .` straight afterwards (also on errors). Results are appended to <seeded-dir>/runs.json.
"""
import argparse
import json
import os
import subprocess
import sys
import time

ROOT = os.path.dirname(os.path.abspath(__file__))


def main():
    ap = argparse.ArgumentParser()
    ap.add_argument('dir')
    ap.add_argument('--tier', default='quick')
    ap.add_argument('--props', nargs='*')
    ap.add_argument('--only', nargs='*')
    ap.add_argument('--scale', default=None)
    a = ap.parse_args()
    d = os.path.abspath(a.dir)
    meta = json.load(open(os.path.join(d, 'meta.json')))
    props = a.props or [meta['property']]
    patch = os.path.join(d, 'patch.diff')
    if subprocess.run(['git', '-C', '/repo', 'status', '--porcelain', '--untracked-files=no'], capture_output=True, text=True).stdout.strip():
        print('refusing: /repo has local modifications')
        return 2
    subprocess.run(['git', '-C', '/repo', 'apply', patch], check=True)
    results = []
    import shutil, tempfile
    scratch = tempfile.mkdtemp(prefix='vkopf-seeded-')
    try:
        for p in props:
            env = dict(os.environ)
            env['VKOPF_EVIDENCE_DIR'] = scratch      # never overwrite the evidence of the unchanged tree
            if a.scale:
                env['VKOPF_TIMEOUT_SCALE'] = a.scale
            cmd = [os.path.join(ROOT, 'vcheck'), 'run', p, '--tier', a.tier] + (['--only'] + a.only if a.only else [])
            t0 = time.time()
            r = subprocess.run(cmd, cwd=ROOT, capture_output=True, text=True, env=env)
            lines = [l for l in r.stdout.splitlines() if l.startswith(('VIOLATION', 'KNOWN-FINDING', '[', 'INCONCLUSIVE'))]
            errs = [l for l in r.stderr.splitlines() if l.startswith('HARNESS-ERROR')]
            results.append({'property': p, 'tier': a.tier, 'exit': r.returncode, 'wall_s': round(time.time() - t0, 1),
                            'lines': lines[:12], 'harness_errors': errs[:5], 'only': a.only})
            print(p, 'exit', r.returncode, '|', ' ; '.join(lines[:4])[:400], '|', ' ; '.join(errs[:2])[:300])
    finally:
        subprocess.run(['git', '-C', '/repo', 'checkout', '--', '.'], check=True)
        shutil.rmtree(scratch, ignore_errors=True)
    runs_path = os.path.join(d, 'runs.json')
    runs = json.load(open(runs_path)) if os.path.exists(runs_path) else []
    runs.append({'at': time.strftime('%Y-%m-%dT%H:%M:%SZ', time.gmtime()), 'results': results})
    json.dump(runs, open(runs_path, 'w'), indent=1)
    return 0


if __name__ == '__main__':
    sys.exit(main())
