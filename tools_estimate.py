#!/usr/bin/env python3
"""Development aid: estimate the thorough tier's CPU from the quick tier's measured per-cell costs."""
import importlib, json, sys, os, collections
sys.path.insert(0, '/verif'); sys.path.insert(0, os.environ.get('VKOPF_REPO', '/repo'))
evdir = sys.argv[1] if len(sys.argv) > 1 else '/verif/evidence'
for i in range(1, 21):
    pid = f'C{i:02d}'
    m = importlib.import_module(f'vkopf.props.c{i:02d}')
    try:
        d = json.load(open(f'{evdir}/{pid}.json'))
    except Exception:
        print(pid, 'no evidence'); continue
    cost = collections.defaultdict(list)
    for e in d['coverage']['per_obligation']:
        fn = e['obligation'].split('{')[0]
        if e.get('kind', 'main') != 'twin' and 'twin=' not in e['obligation']:
            cost[fn].append(e.get('cpu_s', 0))
    tot = 0; parts = []
    cnt = collections.Counter(o.fn for o in m.obligations() if ('thorough' in o.tiers or 'quick' in o.tiers) and o.main)
    for fn, n in cnt.items():
        avg = (sum(cost[fn]) / len(cost[fn])) if cost[fn] else 0
        mx = max(cost[fn]) if cost[fn] else 0
        tot += avg * n
        parts.append(f'{fn}:{n}x{avg:.0f}s(max {mx:.0f})')
    print(f'{pid} est_cpu={tot:8.0f}s  est_wall16={tot/16/60:6.1f}min  ' + ' '.join(parts))
