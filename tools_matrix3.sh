#!/bin/sh
# tools_matrix.sh [jobs] -- development aid: re-run the detecting quick-tier harness of every seeded change against a scratch
# worktree carrying the change (tools_mutrun.sh), one line per seed in /tmp/mutev/matrix3.summary; worktrees are removed.
export VERIF_JOBS="${1:-6}"
cd "${VROOT:-/verif}"
out=/tmp/mutev/matrix3.summary
mkdir -p /tmp/mutev; : > "$out"
run() {
  name="$1"; shift
  ./tools_mutrun.sh "$name" "$@" >> "$out" 2>&1
}
fin() { git -C /repo worktree remove --force "/tmp/mut/$1" 2>/dev/null; }
while read -r name prop only; do
  [ -z "$name" ] && continue
  if [ -n "$only" ]; then run "$name" "$prop" quick --only $only; else run "$name" "$prop" quick; fi
  # keep the worktree if the next line uses the same seed
  echo "$name" > /tmp/mutev/.last
done <<'EOF'
S01-recheck-dropped C01 h_stream
T01-scheduler-queue-bounded C01 h_stream
T03-idle-recheck-dropped C01 h_stream
S05-create-keeps-initial C05
T04-empty-essence-falsy C05 h_event
T05-empty-essence-falsy C05 h_event
T14-initial-dropped-on-diff C05 h_detect
T09-killer-skips-flagged C09 h_history
W01-pool-size-caps-workers C01 h_stream
W05-lookalike-finalizer C05
W07-idle-exit-forgets-barrier C07 h_worker
W09-crashed-daemon-respawns C09 h_history
W10-respawn-while-stopping C09 h_history
W11-done-before-own-accord C09 h_history
W15-extra-fields-status-only C15 h_field_pipeline
W16-empty-diffbase-falsy C16 h_diffbase
W18-exact-type-ranking C18 h_response
W19-version-lost-on-versionless-event C19 h_watch
EOF
for d in /tmp/mut/*; do [ -d "$d" ] && git -C /repo worktree remove --force "$d"; done
git -C /repo worktree prune
cat "$out"
