#!/bin/sh
# tools_verify_seed.sh <name> <dir-with patch.diff+demo_test.py>
# Confirms a seeded change in a fresh scratch worktree of /repo (outside /repo and /verif), then removes the worktree:
#   1. demo passes on the unchanged tree; 2. patch applies; 3. demo fails with the change;
#   4. the repository's test suite still passes all baseline tests with the change.
# Prints one JSON line: {"name":..., "demo_clean":rc, "demo_patched":rc, "suite_missing":n}
name="$1"; src="$2"
wt="/tmp/vs/$name"
rm -rf "$wt"; mkdir -p /tmp/vs
git -C /repo worktree add -q --detach "$wt" HEAD || exit 2
cp /repo/kopf/_cogs/helpers/versions.py "$wt/kopf/_cogs/helpers/"
cp "$src/demo_test.py" "$wt/demo_test_seed.py"
cd "$wt"
run_demo() {
  if grep -q "def test_" demo_test_seed.py; then
    timeout 300 /venv/bin/python -m pytest -q -p no:cacheprovider -x demo_test_seed.py > "$1" 2>&1
  else
    timeout 300 /venv/bin/python demo_test_seed.py > "$1" 2>&1
  fi
  echo $?
}
rc_clean=$(run_demo /tmp/vs/$name.clean.log)
git apply "$src/patch.diff" || { echo "{\"name\":\"$name\",\"error\":\"patch does not apply\"}"; cd /; git -C /repo worktree remove --force "$wt"; exit 1; }
rc_patched=$(run_demo /tmp/vs/$name.patched.log)
missing="skipped"
if [ "$3" != "nosuite" ]; then
  /venv/bin/python -m pytest -q -p no:cacheprovider --timeout=900 --continue-on-collection-errors --ignore=demo_test_seed.py --junitxml=/tmp/vs/$name.junit.xml > /tmp/vs/$name.suite.log 2>&1
  missing=$(python3 /verif/tools_compare_baseline.py /tmp/vs/$name.junit.xml | head -1 | sed 's/.*baseline_tests_not_passing=//')
fi
cd /
git -C /repo worktree remove --force "$wt"
echo "{\"name\":\"$name\",\"demo_clean\":$rc_clean,\"demo_patched\":$rc_patched,\"suite_missing\":\"$missing\"}"
