#!/bin/sh
# tools_mutrun.sh <seeded-name> <Cxx> [tier] [extra vcheck args...]
# Development aid: run a check against a scratch worktree of /repo carrying the seeded change (no change to /repo,
# evidence redirected to /tmp). The official procedure (apply to /repo, run, restore) is tools_seeded.py.
name="$1"; prop="$2"; tier="${3:-quick}"; shift; shift; [ $# -gt 0 ] && shift
wt="/tmp/mut/$name"
if [ ! -d "$wt" ]; then
  git -C /repo worktree add -q --detach "$wt" HEAD || exit 2
  cp /repo/kopf/_cogs/helpers/versions.py "$wt/kopf/_cogs/helpers/"
  git -C "$wt" apply "${SEEDSRC:-/verif/seeded/$name}/patch.diff" || exit 2
fi
mkdir -p "/tmp/mutev/$name"
cd "${VROOT:-/verif}"
VKOPF_REPO="$wt" VKOPF_EVIDENCE_DIR="/tmp/mutev/$name" ./vcheck run "$prop" --tier "$tier" "$@" > "/tmp/mutev/$name/$prop.$tier.log" 2>&1
rc=$?
echo "$name $prop $tier exit=$rc $(grep -c '^VIOLATION' /tmp/mutev/$name/$prop.$tier.log) violations; $(grep '^\[' /tmp/mutev/$name/$prop.$tier.log | tail -1)"
