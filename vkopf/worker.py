"""One obligation per process: run CrossHair (z3) on a harness function, or replay it concretely.

usage: python -m vkopf.worker '<json spec>'
spec: {module, fn, cell, twin, timeout, path_timeout, mode: check|replay, args}
Prints a single line `RESULT <json>`.
"""
import ast
import collections
import importlib
import json
import logging
import os
import sys
import time
import traceback


def _install_adjustments():
    """Tool-side adjustments (DESIGN.md §2); none of them touches kopf."""
    import crosshair.libimpl.datetimelib as _dtl
    _dtl.make_registrations = lambda: None                     # (2) CrossHair datetime off
    import crosshair.core as core
    core.consider_shortcircuit = lambda *a, **k: None          # (1) no callee short-circuiting
    import crosshair.libimpl.builtinslib as _bl
    _bl._PYTYPE_TO_WRAPPER_TYPE[float] = ((_bl.RealBasedSymbolicFloat, 1.0),)  # (5) reals only
    import crosshair.core_and_libs  # noqa: F401  registers the remaining library models
    # (7) rendered numbers are opaque: f"{n}" / repr(n) of a symbolic number yields a placeholder instead of
    # realising the value (kopf builds log/exception messages with f-strings inline; realisation would turn an
    # unbounded symbolic into an endless enumeration of concrete values). No code under test branches on such text.
    _bl.SymbolicNumberAble.__format__ = lambda self, fmt: '<num>'
    _orig_format = core._PATCH_REGISTRATIONS.get(format)
    from crosshair.tracers import NoTracing as _NoTracing

    def _opaque_format(obj, format_spec=''):
        # f"{obj}": strings and concrete primitives are formatted for real; symbolic numbers and arbitrary objects
        # (dataclasses, exceptions, ... which CrossHair would deep-realise) become opaque placeholders.
        with _NoTracing():
            if isinstance(obj, _bl.AnySymbolicStr) or type(obj) in (str, int, float, bool, bytes, type(None)) \
                    or isinstance(obj, str):
                pass
            elif isinstance(obj, _bl.SymbolicNumberAble):
                return '<num>'
            else:
                return '<obj>'
        return _orig_format(obj, format_spec)
    if _orig_format is not None:
        core._PATCH_REGISTRATIONS[format] = _opaque_format
    # repr() of a symbolic int is also opaque (a C-level repr of a container holding one must get a real str, else
    # TypeError), but the explicit conversions keep CrossHair's symbolic-string model: str(n), and int.__repr__(n)
    # as used by the JSON encoder.
    _orig_int_repr = _bl.SymbolicInt.__repr__
    _bl.SymbolicInt.__str__ = _orig_int_repr
    _bl.SymbolicInt.__repr__ = lambda self: '<num>'
    _bl.SymbolicFloat.__repr__ = lambda self: '<num>'
    _bl.RealBasedSymbolicFloat.__repr__ = lambda self: '<num>'
    from crosshair.tracers import NoTracing as _NT
    _native_int_repr = int.__repr__

    def _int_repr(x):
        with _NT():
            symbolic = isinstance(x, _bl.SymbolicInt)
            if not symbolic and not hasattr(x, '__ch_pytype__'):
                return _native_int_repr(x)
        if symbolic:
            return _orig_int_repr(x)
        return x.__repr__()
    core._PATCH_REGISTRATIONS[int.__repr__] = _int_repr
    # (11) int(x) of a real-modelled symbolic float is a z3 term (truncation toward zero), not a realisation:
    # kopf parses `int(float(retry_after))`.
    import z3 as _z3
    _orig_int = core._PATCH_REGISTRATIONS.get(int)

    _reent = {'n': 0}

    def _int_of_real(val=0, *a, **kw):
        with _NT():
            isreal = isinstance(val, _bl.RealBasedSymbolicFloat) and not a and not kw
            if not isreal and _reent['n']:
                return int(val, *a, **kw)   # the inner int() of CrossHair's own patch: native
        if not isreal:
            _reent['n'] += 1
            try:
                return _orig_int(val, *a, **kw)
            finally:
                _reent['n'] -= 1
        if isreal:
            if val >= 0:
                with _NT():
                    return _bl.SymbolicInt(_z3.ToInt(val.var))
            neg = -val
            with _NT():
                pos = _bl.SymbolicInt(_z3.ToInt(neg.var))
            return -pos
        return _orig_int(val, *a)
    if _orig_int is not None:
        core._PATCH_REGISTRATIONS[int] = _int_of_real
    # (13) callable(n) of a symbolic number is False without realising it (kopf: `callable(handler.initial_delay)`).
    _orig_callable = core._PATCH_REGISTRATIONS.get(callable)

    def _callable(obj):
        with _NT():
            if isinstance(obj, (_bl.SymbolicNumberAble, _bl.AnySymbolicStr)):
                return False
            if _orig_callable is None or not isinstance(obj, _bl.CrossHairValue):
                return callable(obj)
        return _orig_callable(obj)
    core._PATCH_REGISTRATIONS[callable] = _callable
    import crosshair.statespace as ss

    stats = {'queries': 0, 'solver_s': 0.0, 'unknown': 0, 'realizations': 0}
    orig_sat = ss.solver_is_sat

    def counted_sat(solver, *exprs):
        t = time.perf_counter()
        stats['queries'] += 1
        try:
            return orig_sat(solver, *exprs)
        except ss.UnknownSatisfiability:
            stats['unknown'] += 1
            raise
        finally:
            stats['solver_s'] += time.perf_counter() - t
    ss.solver_is_sat = counted_sat
    for modname in ('crosshair.statespace', 'crosshair.core', 'crosshair.libimpl.builtinslib'):
        mod = sys.modules.get(modname)
        if mod is not None and getattr(mod, 'solver_is_sat', None) is orig_sat:
            mod.solver_is_sat = counted_sat
    orig_fmv = ss.StateSpace.find_model_value

    def counted_fmv(self, expr, *a, **k):
        stats['realizations'] += 1
        if os.environ.get('VKOPF_DEBUG_REALIZE') and stats['realizations'] <= int(os.environ['VKOPF_DEBUG_REALIZE']):
            import traceback as _tb
            print('[vkopf] realization of', expr, 'at:', file=sys.stderr)
            for fr in _tb.extract_stack()[-14:-1]:
                print('    ', fr.filename.split('/')[-1], fr.lineno, fr.name, file=sys.stderr)
        return orig_fmv(self, expr, *a, **k)
    ss.StateSpace.find_model_value = counted_fmv
    return stats


def _parse_call(message, fn):
    """Extract the concrete arguments from CrossHair's 'when calling f(a, b, ...)' text."""
    import inspect
    marker = 'when calling '
    if marker not in message:
        return None
    text = message.split(marker, 1)[1]
    # cut "(which returns ...)" / " with ..." trailers by balancing parentheses
    depth = 0
    end = None
    for i, ch in enumerate(text):
        if ch == '(':
            depth += 1
        elif ch == ')':
            depth -= 1
            if depth == 0:
                end = i + 1
                break
    if end is None:
        return None
    try:
        call = ast.parse(text[:end], mode='eval').body
        names = list(inspect.signature(fn).parameters)
        out = {}
        for name, a in zip(names, call.args):
            out[name] = ast.literal_eval(a)
        for kw in call.keywords:
            out[kw.arg] = ast.literal_eval(kw.value)
        return out
    except Exception:
        return None


def check(spec):
    if spec.get('engine') == 'smt':
        # a direct SMT obligation: the function builds the query (from the current source) and returns the verdict
        import vkopf
        vkopf.set_cell(spec.get('cell') or {})
        mod = importlib.import_module(spec['module'])
        t0 = time.time()
        res = getattr(mod, spec['fn'])(spec.get('cell') or {})
        res.setdefault('wall_s', round(time.time() - t0, 2))
        return res
    stats = _install_adjustments()
    import vkopf
    vkopf.set_cell(spec.get('cell') or {})
    vkopf.set_twin(spec.get('twin'))
    from crosshair.core import analyze_function, run_checkables
    from crosshair.options import AnalysisOptionSet
    from crosshair.statespace import MessageType
    mod = importlib.import_module(spec['module'])
    fn = getattr(mod, spec['fn'])
    counter = collections.Counter()
    opts = AnalysisOptionSet(
        per_condition_timeout=float(spec.get('timeout', 120)),
        per_path_timeout=float(spec.get('path_timeout', 60)),
        max_uninteresting_iterations=0,
        report_all=True,
        stats=counter,
    )
    t0 = time.time()
    checkables = analyze_function(fn, opts)
    if not checkables:
        return {'status': 'harness_error', 'message': 'no contract found on harness'}
    msgs = run_checkables(checkables)
    wall = time.time() - t0
    out = {'paths': counter.get('num_paths', 0), 'harness_calls': vkopf.PATHS,
           'nontrivial_paths': vkopf.NONTRIVIAL_PATHS, 'tags': dict(vkopf.TAG_COUNTS),
           'wall_s': round(wall, 2), 'cpu_s': round(time.process_time(), 1), **{k: (round(v, 3) if isinstance(v, float) else v) for k, v in stats.items()}}
    from vkopf import symloop as _sl
    if _sl.TASK_FAULTS:
        out['task_faults'] = len(_sl.TASK_FAULTS)
        out['task_fault_sample'] = sorted(set(_sl.TASK_FAULTS))[:3]
    states = {m.state for m in msgs}
    text = ' | '.join(f'{m.state.name}: {m.message}' for m in msgs)
    out['message'] = text[:2000]
    if MessageType.POST_FAIL in states or MessageType.EXEC_ERR in states or MessageType.POST_ERR in states:
        bad = [m for m in msgs if m.state in (MessageType.POST_FAIL, MessageType.EXEC_ERR, MessageType.POST_ERR)][0]
        out['status'] = 'counterexample'
        out['kind'] = bad.state.name
        out['args'] = _parse_call(bad.message, fn)
        out['traceback'] = (bad.traceback or '')[-3000:]
    elif states == {MessageType.CONFIRMED}:
        out['status'] = 'confirmed'
    elif MessageType.PRE_UNSAT in states:
        out['status'] = 'pre_unsat'
    elif MessageType.SYNTAX_ERR in states or MessageType.IMPORT_ERR in states:
        out['status'] = 'harness_error'
    else:
        out['status'] = 'inconclusive'
    return out


def replay(spec):
    import vkopf
    vkopf.set_cell(spec.get('cell') or {})
    vkopf.set_twin(spec.get('twin'))
    mod = importlib.import_module(spec['module'])
    fn = getattr(mod, spec['fn'])
    vkopf.begin_path()
    try:
        ret = fn(**spec['args'])
        return {'status': 'replayed', 'returned': bool(ret), 'reproduced': ret is not True,
                'tags': sorted(vkopf._PATH_TAGS), 'trace': getattr(mod, 'LAST_TRACE', None)}
    except BaseException as e:  # noqa
        return {'status': 'replayed', 'returned': None, 'reproduced': True,
                'exception': f'{type(e).__name__}: {e}', 'traceback': traceback.format_exc()[-3000:]}


def main():
    logging.disable(logging.CRITICAL)
    spec = json.loads(sys.argv[1])
    try:
        res = replay(spec) if spec.get('mode') == 'replay' else check(spec)
    except BaseException as e:  # noqa
        res = {'status': 'harness_error', 'message': f'{type(e).__name__}: {e}',
               'traceback': traceback.format_exc()[-4000:]}
    print('RESULT ' + json.dumps(res, default=repr), flush=True)


if __name__ == '__main__':
    main()
