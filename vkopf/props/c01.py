"""C01 — per-object event processing is serial, ordered and lossless.

Real code under symbolic execution: queueing.watcher, queueing.worker, queueing._wait_for_depletion,
aiotasks.Scheduler (+ real asyncio.Queue/Event/Condition/wait_for) on SymLoop.
Stubs: watching.infinite_watch -> generator yielding n events after symbolic gaps;
processor -> recording coroutine sleeping a symbolic duration.
"""
import asyncio
import logging

import vkopf
from vkopf.symloop import SymLoop, Deadlock, Diverged, Livelock
from vkopf.driver_api import Ob

from kopf._cogs.aiokits import aiotasks
from kopf._cogs.clients import watching
from kopf._cogs.configs import configuration
from kopf._cogs.structs import references
from kopf._core.reactor import queueing

logging.disable(logging.CRITICAL)
RESOURCE = references.Resource('g', 'v1', 'things', namespaced=True)
ENCODED = [queueing.watcher, queueing.worker, queueing._wait_for_depletion, queueing.get_uid,
           queueing.get_version, aiotasks.Scheduler]
META = {
    'technique': 'bounded symbolic execution of the real kopf code (CrossHair 0.0.110 + z3): exhaustive path exploration per obligation cell, counterexamples replayed concretely; plus direct z3 queries whose formulas are generated from the source AST of the real functions (vkopf/astsmt.py; the wait of an idle worker in queueing.worker), validated against the real code on concrete vectors on every run',
    'bounds': 'h_patched: 3 events of one object, the first processing ends with a PATCH whose echo is awaited (consistency timeout symbolic), arrivals pinned per cell; smt_worker_timeout (E4): the wait of an idle worker for every idle timeout >= 1, clock value and deadline. one watch stream; 2 events per cell in the quick tier (uid patterns a,a / a,b; worker_limit None or 1; a BOOKMARK item '
              'interleaved; 3 objects with worker_limit=1), 3 events per cell in the thorough tier (5 uid patterns x 2 limits); gaps between '
              'arrivals, processing durations, idle timeout (>= 1), exit timeout and the cancellation instant are unbounded symbolic '
              'integers (virtual seconds); ties between equal deadlines are symbolic booleans; a processor failure at a symbolic position.',
    'outside': '4 or more events per stream in one cell (> 50 CPU-minutes each, did not exhaust); idle_timeout = 0 (degenerate: the worker '
               'spins); real threads; several streams of one resource; non-integer instants (time arithmetic in this code is '
               'comparison/addition only, reals would give the same branch structure).',
    'stubs': ['watching.infinite_watch -> generator yielding the scripted events after symbolic gaps',
              'processor -> recording coroutine sleeping a symbolic duration (the real one is C02/C05/C07)'],
    'assumptions': ['events of one stream arrive in order (C19)'],
}
LAST_TRACE = None


def run_scenario(gaps, uids, durs, idle, limit, ties=(), cancel_at=None, fail_at=None,
                 bookmarks=(), exit_timeout=None, returns=None, T=None):
    """Returns (log, overlaps, maxactive, outcome, t_cancel, t_return)."""
    global LAST_TRACE
    n = len(gaps)
    log = []         # (uid, seq, start, end)
    active = {}
    overlaps = []
    nactive = [0, 0]
    loop = SymLoop()
    arrivals = []

    async def fake_stream(**_):
        for i in range(n):
            if gaps[i] > 0:
                await asyncio.sleep(gaps[i])
            arrivals.append(loop.time())
            if i in bookmarks:
                yield watching.Bookmark.LISTED
                yield {'type': 'BOOKMARK', 'object': {'metadata': {'resourceVersion': '999'}}}
            yield {'type': 'MODIFIED', 'object': {'metadata': {'uid': uids[i], 'resourceVersion': str(i)}}}
        await asyncio.Event().wait()  # the stream stays open until the watcher is cancelled

    async def processor(*, raw_event, **_):
        u = raw_event['object']['metadata']['uid']
        i = int(raw_event['object']['metadata']['resourceVersion'])
        if active.get(u):
            overlaps.append(u)
        active[u] = True
        nactive[0] += 1
        if nactive[0] > nactive[1]:
            nactive[1] = nactive[0]
        start = loop.time()
        if durs[i] > 0:
            await asyncio.sleep(durs[i])
        active[u] = False
        nactive[0] -= 1
        log.append((u, i, start, loop.time()))
        if fail_at is not None and i == fail_at:
            raise ValueError("processor failure")
        return returns[i] if returns is not None else None    # the version of a PATCH made by this processing (or None)

    settings = configuration.OperatorSettings()
    settings.queueing.idle_timeout = idle
    settings.queueing.worker_limit = limit
    settings.execution.max_workers = 1       # the thread pool of sync handlers: unrelated to the per-object workers
    total = sum(gaps) + sum(durs) + (n + 1) * idle + 10
    if T is not None:
        settings.persistence.consistency_timeout = T
        total = total + (n + 1) * T
    settings.queueing.exit_timeout = total if exit_timeout is None else exit_timeout
    result = {}

    async def main():
        orig = queueing.watching.infinite_watch
        queueing.watching.infinite_watch = fake_stream
        try:
            task = asyncio.create_task(queueing.watcher(
                namespace=None, settings=settings, resource=RESOURCE, processor=processor))
            if fail_at is None:
                await asyncio.sleep(total if cancel_at is None else cancel_at)
                result['t_cancel'] = loop.time()
                task.cancel()
            try:
                await task
                result['outcome'] = 'returned'
            except asyncio.CancelledError:
                result['outcome'] = 'cancelled'
            except RuntimeError as e:
                result['outcome'] = 'runtime_error'
                result['cause'] = type(e.__cause__).__name__
            result['t_return'] = loop.time()
        finally:
            queueing.watching.infinite_watch = orig

    loop.run(main(), ties=ties)
    LAST_TRACE = {'log': [list(map(_c, e)) for e in log], 'arrivals': [_c(a) for a in arrivals],
                  'result': {k: _c(v) for k, v in result.items()}, 'overlaps': overlaps}
    return log, overlaps, nactive[1], result, arrivals


def _c(v):
    try:
        return int(v) if not isinstance(v, str) else v
    except Exception:
        return repr(v)


def _oracle_full(n, uids, log, overlaps, maxactive, limit, arrivals, idle, durs):
    if overlaps:
        return False
    # lossless & no duplicates
    if sorted(i for _, i, _, _ in log) != list(range(n)):
        return False
    vkopf.witness('all_processed')
    # per-object order = delivery order; strictly sequential
    for u in set(uids):
        seq = [(i, s, e) for uu, i, s, e in log if uu == u]
        if [i for i, _, _ in seq] != sorted(i for i, _, _ in seq):
            return False
        for (i1, s1, e1), (i2, s2, e2) in zip(seq, seq[1:]):
            if s2 < e1:
                return False
    if limit is not None and maxactive > limit:
        return False
    # no cross-object waiting when the limit cannot saturate
    if limit is None or limit >= len(set(uids)):
        ends = {}
        byidx = {i: (s, e) for _, i, s, e in log}
        for i in range(n):
            s, e = byidx[i]
            prev_end = ends.get(uids[i])
            expect = arrivals[i] if prev_end is None or prev_end <= arrivals[i] else prev_end
            if s != expect:
                return False
            if vkopf._TWIN == 'retire_eq' and prev_end is not None and arrivals[i] == prev_end + idle:
                vkopf.witness('retire_eq')
            ends[uids[i]] = e
        vkopf.witness('no_cross_wait')
    return True


def h_stream(g0: int, g1: int, g2: int, g3: int, d0: int, d1: int, d2: int, d3: int, idle: int,
             t0: bool, t1: bool, t2: bool, t3: bool, t4: bool, t5: bool) -> bool:
    """
    pre: g0 >= 0 and g1 >= 0 and g2 >= 0 and g3 >= 0
    pre: d0 >= 0 and d1 >= 0 and d2 >= 0 and d3 >= 0
    pre: idle >= 1
    post: _ == True
    """
    vkopf.begin_path()
    c = vkopf.cell()
    uids, limit = c['uids'], c.get('limit')
    n = len(uids)
    if c.get('g0_zero'):
        g0 = 0          # nothing depends on absolute time: the first arrival is the origin (w.l.o.g.)
    gaps, durs = [g0, g1, g2, g3][:n], [d0, d1, d2, d3][:n]
    if c.get('last_dur_zero'):
        durs[-1] = 0    # the duration of the last processing orders nothing
    try:
        log, overlaps, maxactive, result, arrivals = run_scenario(
            gaps, uids, durs, idle, limit, ties=[t0, t1, t2, t3, t4, t5], bookmarks=c.get('bookmarks', ()))
    except (Deadlock, Diverged, Livelock):
        return vkopf.verdict(False)
    ok = _oracle_full(n, uids, log, overlaps, maxactive, limit, arrivals, idle, durs)
    ok = ok and result['outcome'] == 'cancelled'
    return vkopf.verdict(ok)


def h_patched(g1: int, g2: int, d0: int, d1: int, idle: int, T: int, t0: bool, t1: bool, t2: bool) -> bool:
    """
    pre: g1 >= 0 and g2 >= 0 and d0 >= 0 and d1 >= 0 and idle >= 1 and T >= 0
    post: _ == True
    """
    # The processing of an event may end with a PATCH whose echo is awaited (consistency timeout T): whatever the timings of the
    # following events relative to that deadline -- processed past it, queued meanwhile -- none of them is lost or reordered.
    vkopf.begin_path()
    c = vkopf.cell()
    uids = c['uids']
    n = len(uids)
    gaps = [0, vkopf.pin('g1', g1), vkopf.pin('g2', g2)][:n]
    durs = [d0, d1, 0][:n]
    returns = [('echo' if i in c.get('patched', [0]) else None) for i in range(n)]
    try:
        log, overlaps, maxactive, result, arrivals = run_scenario(gaps, uids, durs, idle, None, ties=[t0, t1, t2], returns=returns, T=T)
    except (Deadlock, Diverged, Livelock):
        return vkopf.verdict(False)
    ok = _oracle_full(n, uids, log, overlaps, maxactive, None, arrivals, idle, durs)
    ok = ok and result['outcome'] == 'cancelled'
    if len(log) == n and log[1][3] > log[0][3] + T:
        vkopf.witness('processed_past_deadline')
    return vkopf.verdict(ok)


def h_cancel(g0: int, g1: int, g2: int, d0: int, d1: int, d2: int, idle: int, cancel_at: int,
             t0: bool, t1: bool, t2: bool, t3: bool) -> bool:
    """
    pre: g0 >= 0 and g1 >= 0 and g2 >= 0
    pre: d0 >= 0 and d1 >= 0 and d2 >= 0
    pre: idle >= 1 and cancel_at >= 0
    post: _ == True
    """
    vkopf.begin_path()
    c = vkopf.cell()
    uids, limit = c['uids'], c.get('limit')
    n = len(uids)
    g0 = 0      # the first arrival is the origin of time (w.l.o.g.)
    gaps, durs = [g0, g1, g2][:n], [d0, d1, d2][:n]
    try:
        log, overlaps, maxactive, result, arrivals = run_scenario(
            gaps, uids, durs, idle, limit, ties=[t0, t1, t2, t3], cancel_at=cancel_at)
    except (Deadlock, Diverged, Livelock):
        return vkopf.verdict(False)
    if overlaps or result['outcome'] != 'cancelled':
        return vkopf.verdict(False)
    tc = result['t_cancel']
    done = [i for _, i, _, _ in log]
    if len(set(done)) != len(done):
        return vkopf.verdict(False)
    ok = True
    # everything delivered strictly before the cancellation is processed (exit_timeout is generous);
    # nothing that was never delivered is processed; per-object order holds.
    for i in range(n):
        delivered = i < len(arrivals)
        if delivered and arrivals[i] < tc and i not in done:
            ok = False
        if not delivered and i in done:
            ok = False
    for u in set(uids):
        seq = [i for uu, i, _, _ in log if uu == u]
        if seq != sorted(seq):
            ok = False
        mine = [i for i in range(n) if uids[i] == u]
        if seq != mine[:len(seq)]:      # only a suffix may be missing
            ok = False
    if len(done) < n:
        vkopf.witness('cancel_mid_stream')
    # bounded exit: the watcher returns once in-flight processing is over
    if result['t_return'] > tc + sum(durs):
        ok = False
    return vkopf.verdict(ok)


def h_fail(g0: int, g1: int, d0: int, d1: int, idle: int, which: bool) -> bool:
    """
    pre: g0 >= 0 and g1 >= 0 and d0 >= 0 and d1 >= 0 and idle >= 1
    post: _ == True
    """
    vkopf.begin_path()
    c = vkopf.cell()
    uids = c['uids']
    try:
        log, overlaps, maxactive, result, arrivals = run_scenario(
            [g0, g1], uids, [d0, d1], idle, c.get('limit'), fail_at=1 if which else 0)
    except (Deadlock, Diverged, Livelock):
        return vkopf.verdict(False)
    # A failing processor is never silently lost: the watcher ends with a RuntimeError chained to it.
    ok = result['outcome'] == 'runtime_error' and result.get('cause') == 'ValueError' and not overlaps
    if ok:
        vkopf.witness('error_escalated')
    return vkopf.verdict(ok)


def smt_worker_timeout(cell=None, replay=None):
    """E4: how long an idle worker waits for the next event of its object -- the assignment of `timeout` in the real
    `queueing.worker`, translated from its source. For EVERY idle timeout >= 1, clock value and consistency deadline (or none):
    the wait is at least the idle timeout (> 0: `wait_for(..., timeout <= 0)` never looks at the queue -- a live-lock with a
    non-empty backlog), it covers the consistency deadline if there is one, and it is one of the two."""
    import ast as _ast
    import inspect
    import textwrap
    import time
    import types
    import z3
    from vkopf import astsmt
    tree = _ast.parse(textwrap.dedent(inspect.getsource(queueing.worker)))
    assigns = [n for n in _ast.walk(tree) if isinstance(n, _ast.Assign) and len(n.targets) == 1 and
               isinstance(n.targets[0], _ast.Name) and n.targets[0].id == 'timeout']
    if len(assigns) != 1:
        return {'status': 'harness_error', 'message': 'queueing.worker no longer has exactly one assignment of `timeout`'}

    def concrete(idle, now, ct):
        ns = {'settings': types.SimpleNamespace(queueing=types.SimpleNamespace(idle_timeout=idle)),
              'loop': types.SimpleNamespace(time=lambda: now), 'consistency_time': ct}
        exec(compile(_ast.Module(body=assigns, type_ignores=[]), '<worker>', 'exec'), ns)
        return ns['timeout']

    def holds(idle, now, ct, t):
        return t >= idle and (ct is None or t >= ct - now) and (t == idle or (ct is not None and t == ct - now))
    if replay is not None:
        return bool(holds(replay['idle'], replay['now'], replay['ct'], concrete(replay['idle'], replay['now'], replay['ct'])))
    t0 = time.time()
    idle, now, ctv = z3.Reals('idle now ct')
    has = z3.Bool('has_ct')
    try:
        env = astsmt.translate_statements(assigns, {'settings.queueing.idle_timeout': idle, 'consistency_time': astsmt.Opt(has, ctv)},
                                          {'loop.time': lambda tr: now})
        timeout = env['timeout']
    except astsmt.Unsupported as e:
        return {'status': 'harness_error', 'message': f'the worker timeout is no longer translatable: {e}'}
    for (i_, n_, c_) in ((5, 100, None), (5, 100, 103), (5, 100, 110), (5, 100, 90), (1, 0, 0)):
        sv = z3.Solver()
        sv.add(idle == i_, now == n_, has == (c_ is not None), ctv == (c_ or 0))
        want = concrete(i_, n_, c_)
        if str(sv.check()) != 'sat' or sv.model().eval(timeout, model_completion=True).as_fraction() != want:
            return {'status': 'harness_error', 'message': 'encoding of the worker timeout disagrees with Python'}
    goals = {'at_least_idle': timeout >= idle, 'covers_deadline': z3.Implies(has, timeout >= ctv - now),
             'one_of_both': z3.Or(timeout == idle, z3.And(has, timeout == ctv - now))}
    queries = 0
    for g, term in goals.items():
        s = z3.Solver()
        s.set('timeout', 60000)
        s.add(idle >= 1, now >= 0, z3.Not(term))
        r = str(s.check())
        queries += 1
        if r == 'sat':
            m = s.model()
            def val(x):
                f = m.eval(x, model_completion=True).as_fraction()
                return int(f) if f.denominator == 1 else float(f)
            ct_val = val(ctv) if z3.is_true(m.eval(has, model_completion=True)) else None
            return {'status': 'counterexample', 'paths': queries, 'queries': queries, 'message': f'z3: sat for {g}',
                    'args': {'replay': {'idle': val(idle), 'now': val(now), 'ct': ct_val, 'goal': g}}}
        if r != 'unsat':
            return {'status': 'inconclusive', 'message': f'z3 {r}', 'paths': queries, 'queries': queries}
    return {'status': 'confirmed', 'paths': queries, 'harness_calls': queries, 'nontrivial_paths': queries, 'queries': queries,
            'solver_s': round(time.time() - t0, 3), 'tags': {'smt_goal': queries}, 'message': 'z3: all negated goals unsat (reals)'}


def obligations():
    obs = [Ob('smt_worker_timeout', {}, engine='smt', timeout=300)]
    pats2 = [['a', 'a'], ['a', 'b']]
    pats3 = [['a', 'a', 'a'], ['a', 'a', 'b'], ['a', 'b', 'a'], ['a', 'b', 'b'], ['a', 'b', 'c']]
    pats4 = [['a', 'a', 'a', 'a'], ['a', 'b', 'a', 'b'], ['a', 'a', 'b', 'a'], ['a', 'b', 'b', 'a']]
    for p in pats2:
        for limit in (None, 1):
            obs.append(Ob('h_stream', {'uids': p, 'limit': limit}, tiers=('quick', 'thorough'),
                          timeout=300, twins=['all_processed'] + (['retire_eq'] if p == ['a', 'a'] and limit is None else [])))
    obs.append(Ob('h_stream', {'uids': ['a', 'a'], 'limit': None, 'bookmarks': [1]}, tiers=('quick', 'thorough'), timeout=300))
    obs.append(Ob('h_stream', {'uids': ['a', 'b', 'c'], 'limit': 1, 'g0_zero': True, 'last_dur_zero': True}, tiers=('quick',), timeout=900))
    # thorough: three events per cell (first arrival = origin, last duration 0: both w.l.o.g.); a cell that does not exhaust within
    # the 15-minute cap is reported inconclusive. Four events per cell are out of reach (> 50 CPU-minutes each) and not claimed.
    for p in pats3:
        for limit in (None, 1):
            obs.append(Ob('h_stream', {'uids': p, 'limit': limit, 'g0_zero': True, 'last_dur_zero': True}, tiers=('thorough',), timeout=900))
    # a PATCH made by the first processing is awaited while two more events of the object arrive (all three at once in the quick cell)
    obs.append(Ob('h_patched', {'uids': ['a', 'a', 'a'], 'patched': [0], 'pin': {'g1': 0, 'g2': 0}}, tiers=('quick', 'thorough'), timeout=600,
                  twins=['processed_past_deadline']))
    obs.append(Ob('h_patched', {'uids': ['a', 'a', 'a'], 'patched': [0, 1], 'pin': {'g2': 0}}, tiers=('thorough',), timeout=900))
    obs.append(Ob('h_patched', {'uids': ['a', 'a', 'a'], 'patched': [0], 'pin': {'g1': 0}}, tiers=('thorough',), timeout=900))
    obs.append(Ob('h_cancel', {'uids': ['a', 'a'], 'limit': None}, tiers=('quick', 'thorough'), timeout=600, twins=['cancel_mid_stream']))
    obs.append(Ob('h_cancel', {'uids': ['a', 'b'], 'limit': None}, tiers=('thorough',), timeout=1500, twins=['cancel_mid_stream']))
    for p in pats2:
        obs.append(Ob('h_fail', {'uids': p, 'limit': None}, tiers=('quick', 'thorough'), timeout=300,
                      twins=['error_escalated']))
    return obs
