"""C20 — operator lifecycle: startup first, fail-fast, cleanup last, bounded exit.

H1: real running.run_tasks + running.startup_cleanup_activities + running.stop_flag_checker + aiotasks.guard/stop +
    activities.run_activity + daemons.daemon_killer, wired as in spawn_tasks, with recording root coroutines standing for
    the other root tasks; symbolic: which root fails or which stop trigger fires, at which instant (also during startup),
    startup/cleanup handler outcomes and durations, a live daemon.
"""
import asyncio
import logging

import kopf
import vkopf
from vkopf.driver_api import Ob, split, sample
from vkopf.symloop import SymLoop, Deadlock, Diverged, Livelock, cancel_all_others
from vkopf.world import World, base_body, PLURAL

from kopf._cogs.aiokits import aiotasks, aiotoggles
from kopf._cogs.configs import configuration
from kopf._cogs.structs import credentials, ephemera
from kopf._core.engines import activities, daemons
from kopf._core.intents import registries
from kopf._core.reactor import running
from kopf._core.reactor import orchestration as _orch, observation as _obs, queueing as _queueing

logging.disable(logging.CRITICAL)
from kopf._core.engines import peering as _peering
from vkopf.props import c13 as _c13
ENCODED = [_peering.keepalive, _peering.touch, running.run_tasks, running.startup_cleanup_activities, running.stop_flag_checker, aiotasks.guard, aiotasks.stop,
           aiotasks.wait, aiotasks.reraise, activities.run_activity, daemons.daemon_killer, daemons.stop_daemon,
           running.spawn_tasks, _orch.orchestrator, _orch.spawn_missing_watchers, _obs.resource_observer, _queueing.watcher]
META = {
    'bounds': 'two recording root tasks + the real stop-flag checker, startup/cleanup task, daemon killer and a core task; trigger in '
              '{root A raises, root B returns, stop flag set, external cancellation of run_tasks, nothing (startup failure only)} at a '
              'symbolic instant >= 0 (before, during or after the startup handler of symbolic duration); startup outcome ok/permanent '
              'failure; cleanup handler duration symbolic; one daemon that obeys the stop flag after a symbolic delay; a root task that '
              'takes a symbolic time to honour its cancellation. H2 (h_operator): the REAL spawn_tasks + run_tasks (all root tasks as kopf '
              'wires them: stop-flag checker, startup/cleanup, daemon killer, credentials retriever, poster, admission managers, observers, '
              'orchestrator -> watchers -> workers -> processing -> patching) over the real client stack down to a fake aiohttp session; one '
              'served object with a create handler and a daemon; stop flag / cancellation at a symbolic instant during startup (startup '
              'duration symbolic), during the 3 s creation handler, or in steady state (grid 0/1/3/10 s after it); startup failure; the watch '
              'stream of the served kind answering 500 until the retries are exhausted; peering record written and withdrawn (thorough).',
    'outside': 'OS signals (the signal-handler branch is switched off: a virtual loop has none); liveness endpoint; real sockets; '
               'an unbounded stop instant in steady state (did not exhaust in 15 CPU-minutes); the 5 s hung-task grace is exercised with one straggler task',
    'stubs': ['root tasks -> recording coroutines (H1)', 'api.patch -> FakeServer for the daemon spawn (H1)',
              'aiohttp session -> vkopf.fakehttp.FakeSession serving discovery, list, watch (ordered change log), PATCH (H2)'],
    'assumptions': [],
}
TRIGGERS = ['a_raises', 'b_returns', 'stop_flag', 'external_cancel', 'none']


def run_operator(trigger, at, su_dur, su_fails, cu_dur, a_linger, daemon_delay, with_daemon, hung_for, su2_retries=False, staged=False):
    w = World(base_body(labels={'run': 'yes'}), tmode='symbolic')
    loop = w.loop
    log = []
    registry = w.registry

    @kopf.on.startup(registry=registry)
    async def su(**_):
        log.append(('startup_begin', loop.time()))
        if su_dur > 0:
            await asyncio.sleep(su_dur)
        if su_fails:
            raise kopf.PermanentError('startup failed')
        log.append(('startup_end', loop.time()))

    su2_calls = []

    @kopf.on.startup(registry=registry)
    async def su2(**_):
        # a second startup handler that may need one retry (TemporaryError) before it succeeds
        su2_calls.append(loop.time())
        if su2_retries and len(su2_calls) == 1:
            raise kopf.TemporaryError('not yet', delay=1)
        log.append(('startup2_end', loop.time()))

    @kopf.on.cleanup(registry=registry)
    async def cu(**_):
        log.append(('cleanup_begin', loop.time()))
        if cu_dur > 0:
            await asyncio.sleep(cu_dur)
        log.append(('cleanup_end', loop.time()))

    if with_daemon and staged:
        # a daemon that ignores the stop flag and exits only when cancelled; its staged termination (flag -> backoff -> cancel)
        # is already under way (filters mismatch) when the operator is stopped
        @kopf.daemon(PLURAL, id='dm', registry=registry, labels={'run': 'yes'}, cancellation_backoff=5, cancellation_timeout=5)
        async def dm(stopped, **_):
            log.append(('daemon_enter', loop.time()))
            try:
                await asyncio.Event().wait()
            except asyncio.CancelledError:
                log.append(('daemon_flag', loop.time()))
                log.append(('daemon_exit', loop.time()))
                raise
    elif with_daemon:
        @kopf.daemon(PLURAL, id='dm', registry=registry)
        async def dm(stopped, **_):
            log.append(('daemon_enter', loop.time()))
            await stopped.wait()
            log.append(('daemon_flag', loop.time()))
            if daemon_delay > 0:
                await asyncio.sleep(daemon_delay)
            log.append(('daemon_exit', loop.time()))

    settings = w.settings
    settings.process.ultimate_exiting_timeout = None

    async def main():
        started_flag = asyncio.Event()
        ready_flag = asyncio.Event()
        stop_flag = asyncio.Event()
        signal_flag = asyncio.Future()
        operator_paused = aiotoggles.ToggleSet(any)
        vault = credentials.Vault()
        tasks, core_tasks = [], []

        async def ready_watch():
            await ready_flag.wait()
            log.append(('ready', loop.time()))
        asyncio.create_task(ready_watch())
        ignored = set(asyncio.all_tasks())      # whatever existed before the operator is not the operator's

        async def root_a():
            log.append(('a_begin', loop.time()))
            try:
                if trigger == 'a_raises':
                    await asyncio.sleep(at)
                    log.append(('trigger', loop.time()))
                    raise RuntimeError('root A failed unrecoverably')
                await asyncio.Event().wait()
            except asyncio.CancelledError:
                log.append(('a_cancelled', loop.time()))
                if a_linger > 0:
                    try:
                        await asyncio.sleep(a_linger)
                    except asyncio.CancelledError:
                        pass
                log.append(('a_end', loop.time()))
                raise
            except RuntimeError:
                log.append(('a_end', loop.time()))
                raise

        async def root_b():
            log.append(('b_begin', loop.time()))
            if with_daemon:
                await w.process('ADDED')          # "API activity": spawns the daemon through the real pipeline
                log.append(('api', loop.time()))
                if staged:
                    await asyncio.sleep(0)
                    w.server.write(lambda o: o['metadata'].setdefault('labels', {}).update(run='no'))
                    staging = asyncio.create_task(w.process('MODIFIED'))     # asks the daemon to stop, then sleeps for the backoff
            if hung_for is not None:
                async def straggler():
                    try:
                        await asyncio.sleep(10 ** 6)
                    except asyncio.CancelledError:
                        log.append(('straggler_cancelled', loop.time()))
                        raise
                asyncio.create_task(straggler())
            try:
                if trigger == 'b_returns':
                    await asyncio.sleep(at)
                    log.append(('trigger', loop.time()))
                    return
                await asyncio.Event().wait()
            finally:
                log.append(('b_end', loop.time()))

        async def core():
            log.append(('core_begin', loop.time()))
            try:
                await asyncio.Event().wait()
            finally:
                log.append(('core_end', loop.time()))

        tasks.append(asyncio.create_task(running.stop_flag_checker(signal_flag=signal_flag, stop_flag=stop_flag)))
        tasks.append(asyncio.create_task(running.startup_cleanup_activities(
            root_tasks=tasks, core_tasks=core_tasks, ready_flag=ready_flag, started_flag=started_flag, registry=registry,
            settings=settings, indices={}, vault=vault, memo=ephemera.Memo())))
        tasks.append(aiotasks.create_guarded_task(name='daemon killer', flag=started_flag,
                                                  coro=daemons.daemon_killer(settings=settings, memories=w.memories,
                                                                             operator_paused=operator_paused)))
        core_tasks.append(aiotasks.create_guarded_task(name='core', flag=started_flag, coro=core()))
        tasks.append(aiotasks.create_guarded_task(name='root a', flag=started_flag, coro=root_a()))
        tasks.append(aiotasks.create_guarded_task(name='root b', flag=started_flag, coro=root_b(), finishable=True))

        runner = asyncio.create_task(running.run_tasks(tasks, ignored=ignored | {asyncio.current_task()}))
        if trigger == 'stop_flag':
            await asyncio.sleep(at)
            log.append(('trigger', loop.time()))
            stop_flag.set()
        elif trigger == 'external_cancel':
            await asyncio.sleep(at)
            log.append(('trigger', loop.time()))
            runner.cancel()
        try:
            await runner
            outcome = 'returned'
        except asyncio.CancelledError:
            outcome = 'cancelled'
        except BaseException as e:
            outcome = type(e).__name__
        log.append(('run_tasks_end', loop.time(), outcome))
        await cancel_all_others()
        return outcome
    from vkopf import shimdt
    from kopf._core.actions import progression
    with shimdt.installed(progression):      # activities/daemons keep their state in memory: timestamps stay symbolic
        outcome = w.run(main(), max_steps=20000)
    return log, outcome


def h_lifecycle(trigger: int, at: int, su_dur: int, su_fails: bool, cu_dur: int, a_linger: int, daemon_delay: int,
                with_daemon: bool, hung: bool, su2_retries: bool, staged: bool) -> bool:
    """
    pre: 0 <= trigger <= 4 and at >= 0 and su_dur >= 0 and cu_dur >= 0 and a_linger >= 0 and daemon_delay >= 0
    post: _ == True
    """
    vkopf.begin_path()
    trigger, su_fails = vkopf.pin('trigger', trigger), vkopf.pin('su_fails', su_fails)
    with_daemon, hung, su2_retries = vkopf.pin('with_daemon', with_daemon), vkopf.pin('hung', hung), vkopf.pin('su2_retries', su2_retries)
    if vkopf.cell('coarse', False):
        # quick cells: the instants that matter (trigger vs. startup) stay unbounded symbolic; the grace-period
        # durations are chosen from small sets (every extra unbounded duration multiplies the timer orderings)
        cu_dur, a_linger, daemon_delay = 1, vkopf.choose(a_linger, [0, 2]), vkopf.choose(daemon_delay, [0, 1])
    name = TRIGGERS[trigger]
    if name == 'none' and not su_fails:
        return True                      # nothing ever stops this operator: not a scenario
    try:
        staged = vkopf.pin('staged', staged) and with_daemon
        log, outcome = run_operator(name, at, su_dur, su_fails, cu_dur, a_linger, daemon_delay, with_daemon, 3 if hung else None,
                                    su2_retries=su2_retries, staged=staged)
    except (Deadlock, Diverged, Livelock):
        return vkopf.verdict(False)
    t = {}
    for e in log:
        t.setdefault(e[0], e[1])
    ok = True
    roots_began = [k for k in ('a_begin', 'b_begin', 'core_begin', 'api', 'daemon_enter') if k in t]
    startup_ok = 'startup_end' in t and 'startup2_end' in t
    startup_done_at = max(t['startup_end'], t['startup2_end']) if startup_ok else None
    # no root body (no API activity) before ALL startup handlers have succeeded
    for k in roots_began:
        if not startup_ok or t[k] < startup_done_at:
            ok = False
    # a failed (or interrupted) startup aborts the operator without any root body
    if not startup_ok and roots_began:
        ok = False
    if 'ready' in t and (not startup_ok or t['ready'] < startup_done_at):
        ok = False
    if startup_ok and 'ready' not in t:
        ok = False
    stopped_at = t.get('trigger')
    if su_fails and (stopped_at is None or stopped_at > su_dur + 1 + 5):     # (+ a retry of the other handler + the 5 s hung-task grace)
        # the startup failure itself is the reason: re-raised from the run call
        if outcome not in ('ActivityError',):
            ok = False
        vkopf.witness('startup_failed')
    if startup_ok and name == 'a_raises':
        if outcome != 'RuntimeError':
            ok = False                   # the failure of an essential task is re-raised, the operator does not linger
        vkopf.witness('fail_fast')
    if 'run_tasks_end' not in t:
        ok = False
    end = t.get('run_tasks_end', 0)
    # everything that began has ended before run_tasks returns: roots cancelled, daemons stopped
    if 'a_begin' in t and 'a_end' not in t:
        ok = False
    if 'b_begin' in t and 'b_end' not in t:
        ok = False
    if 'core_begin' in t and 'core_end' not in t:
        ok = False
    if 'daemon_enter' in t:
        vkopf.witness('daemon')
        if 'daemon_flag' not in t:
            ok = False                   # daemons are stopped (they see the stop flag)
    # cleanup handlers run after everything else has stopped
    if 'cleanup_begin' in t:
        for k in ('a_end', 'b_end', 'core_end'):
            if k in t and t[k] > t['cleanup_begin']:
                ok = False
        if 'daemon_flag' in t and t['daemon_flag'] > t['cleanup_begin']:
            ok = False
        if staged and 'daemon_enter' in t and ('daemon_exit' not in t or t['daemon_exit'] > t['cleanup_begin']):
            ok = False                   # a daemon already in staged termination is taken over by the exit path as well
        vkopf.witness('cleanup')
    elif startup_ok and name != 'external_cancel':
        ok = False                       # a graceful/fail-fast stop always runs the cleanup handlers
    # bounded exit: stop trigger -> return within the grace periods
    if stopped_at is not None and startup_ok:
        bound = stopped_at + a_linger + daemon_delay + cu_dur + 5 + 1 + (10 if staged else 0)
        if end > bound:
            ok = False
    return vkopf.verdict(ok)


def h_withdraw(lifetime: int, j0: int, j1: int, j2: int, lat: int, cancel_at: int) -> bool:
    """
    pre: lifetime >= 2 and 5 <= j0 <= 10 and 5 <= j1 <= 10 and 5 <= j2 <= 10
    pre: 0 <= lat <= 3 and 0 <= cancel_at <= 3
    post: _ == True
    """
    # "the peering record is withdrawn": the real peering.keepalive() stopped at an arbitrary early instant, also while its
    # first request is still in flight (shared with C13 h_keepalive; this obligation's cell sets 'early')
    return _c13.keepalive_impl(lifetime, j0, j1, j2, 0, lat, cancel_at)


# --------------------------------------------------------------------------------------------------- H2: the whole operator
def run_whole(trigger, at, su_dur, su_fails, cu_dur, handler_dur, peering=False, stream_fault=None):
    """The REAL running.spawn_tasks + running.run_tasks (what kopf.operator()/kopf.run() execute), i.e. all root tasks wired by
    kopf itself: stop-flag checker, startup/cleanup, daemon killer, credentials retriever, poster, admission managers, resource
    and namespace observers, orchestrator -> watchers -> workers -> process_resource_event -> patching, over the real client
    stack (api.request, auth, Vault, errors, watching) down to a fake aiohttp session that logs every request."""
    import json as _json
    import aiohttp
    from vkopf.fakehttp import FakeSession, FakeResponse
    from vkopf.world import FakeServer
    from vkopf import shimdt
    from kopf._cogs.clients import errors as _errors
    from kopf._cogs.structs import references as _refs
    from kopf._core.actions import progression
    from kopf._core.engines import peering as peering_mod
    from kopf._core.reactor import inventory
    loop = SymLoop()
    log = []            # (what, t)
    requests = []       # (t, method, path)
    registry = registries.OperatorRegistry()
    settings = configuration.OperatorSettings()
    settings.peering.standalone = not peering
    settings.posting.enabled = False
    settings.watching.server_timeout = None
    settings.watching.client_timeout = None
    settings.networking.error_backoffs = [1]
    obj = base_body()
    server = FakeServer(obj, clock=lambda: loop._now)
    changed = {'ev': None}
    peer_obj = {'apiVersion': 'kopf.dev/v1', 'kind': 'ClusterKopfPeering', 'metadata': {'name': 'default', 'resourceVersion': '1'}, 'status': {}}

    def rsrc(name, kind, namespaced):
        return {'name': name, 'singularName': kind.lower(), 'kind': kind, 'namespaced': namespaced, 'shortNames': [], 'categories': [],
                'verbs': ['get', 'list', 'watch', 'patch', 'create', 'delete']}

    from vkopf import opworld
    server.log = opworld.NotifyingLog()

    async def watch_stream(kind, since, resp):
        # an ordered reader of the server's change log (every write, also the operator's own, comes back as an event);
        # the connection stays open until the client closes the response
        if kind != 'obj':
            await resp.closed_ev.wait()
            raise aiohttp.ClientConnectionError('closed')
        new = asyncio.Event()
        server.log.readers.append(new)
        try:
            i = 0
            while True:
                while i >= len(server.log):
                    if resp.closed:
                        raise aiohttp.ClientConnectionError('the connection was closed by the client')
                    new.clear()
                    w1, w2 = asyncio.ensure_future(new.wait()), asyncio.ensure_future(resp.closed_ev.wait())
                    try:
                        await asyncio.wait({w1, w2}, return_when=asyncio.FIRST_COMPLETED)
                    finally:
                        w1.cancel()
                        w2.cancel()
                rv, snap = server.log[i]
                i += 1
                if rv > since:
                    yield (_json.dumps({'type': 'MODIFIED', 'object': snap}) + '\n').encode()
        finally:
            server.log.readers.remove(new)

    async def serve(sess, method, url, payload, headers, timeout):
        path = url[len('http://fake'):]
        requests.append((loop.time(), method.upper(), path))
        m = method.upper()
        base = path.split('?')[0]
        if m == 'GET':
            if base == '/version':
                return FakeResponse(200, body={'major': '1', 'minor': '30'})
            if base == '/api':
                return FakeResponse(200, body={'versions': ['v1']})
            if base == '/apis':
                return FakeResponse(200, body={'groups': [{'name': GROUP_, 'preferredVersion': {'version': 'v1'}, 'versions': [{'version': 'v1'}]}]})
            if base == '/api/v1':
                return FakeResponse(200, body={'resources': [rsrc('namespaces', 'Namespace', False), rsrc('events', 'Event', True)]})
            if base == f'/apis/{GROUP_}/v1':
                rs = [rsrc(PLURAL, 'KopfExample', True)]
                if peering:
                    rs.append(rsrc('clusterkopfpeerings', 'ClusterKopfPeering', False))
                return FakeResponse(200, body={'resources': rs})
            if base == f'/apis/{GROUP_}/v1/{PLURAL}':
                if 'watch=true' in path:
                    if stream_fault == 'http500' :
                        return FakeResponse(500, body={'kind': 'Status', 'message': 'boom', 'code': 500})
                    since = int(path.split('resourceVersion=')[1].split('&')[0]) if 'resourceVersion=' in path else 0
                    resp = FakeResponse(200)
                    return resp.attach_stream(watch_stream('obj', since, resp))
                return FakeResponse(200, body={'metadata': {'resourceVersion': str(server.rv)}, 'items': [server.obj] if server.obj else []})
            if base == f'/apis/{GROUP_}/v1/clusterkopfpeerings' or base.startswith(f'/apis/{GROUP_}/v1/clusterkopfpeerings/'):
                if 'watch=true' in path:
                    resp = FakeResponse(200)
                    return resp.attach_stream(watch_stream('peering', 0, resp))
                if base.endswith('/default'):
                    return FakeResponse(200, body=peer_obj)
                return FakeResponse(200, body={'metadata': {'resourceVersion': '1'}, 'items': [peer_obj]})
            return FakeResponse(404, body={'kind': 'Status', 'message': 'not found', 'code': 404})
        if m == 'PATCH':
            if 'clusterkopfpeerings' in base:
                from vkopf.world import rfc7386
                new = rfc7386(peer_obj, payload)
                peer_obj.clear()
                peer_obj.update(new)
                return FakeResponse(200, body=peer_obj)
            try:
                result = await server.patch(base, headers=headers, payload=payload)
            except _errors.APIError as e:
                return FakeResponse(e.status, body={'kind': 'Status', 'message': 'x', 'code': e.status})
            return FakeResponse(200, body=result)
        return FakeResponse(200, body={})

    @kopf.on.login(registry=registry)
    async def login(**_):
        log.append(('login', loop.time()))
        return credentials.AiohttpSession(server='http://fake', aiohttp_session=FakeSession(serve))

    @kopf.on.startup(registry=registry)
    async def su(**_):
        log.append(('startup_begin', loop.time()))
        if su_dur > 0:
            await asyncio.sleep(su_dur)
        if su_fails:
            raise kopf.PermanentError('startup failed')
        log.append(('startup_end', loop.time()))

    @kopf.on.cleanup(registry=registry)
    async def cu(**_):
        log.append(('cleanup_begin', loop.time()))
        if cu_dur > 0:
            await asyncio.sleep(cu_dur)
        log.append(('cleanup_end', loop.time()))

    @kopf.on.create(PLURAL, id='c', registry=registry)
    async def c(**_):
        log.append(('handler_begin', loop.time()))
        if handler_dur > 0:
            await asyncio.sleep(handler_dur)
        if trigger == 'handler_crashes_worker':
            raise SystemError('simulated framework fault')       # not an Exception the handler machinery absorbs? (it is; see below)
        log.append(('handler_end', loop.time()))

    @kopf.daemon(PLURAL, id='dm', registry=registry)
    async def dm(stopped, **_):
        log.append(('daemon_enter', loop.time()))
        await stopped.wait()
        log.append(('daemon_exit', loop.time()))

    stop_flag = asyncio.Event()
    ready_flag = asyncio.Event()
    outcome = {}

    async def main():
        import threading
        orig_dt, orig_iso = progression.datetime, progression.iso8601
        orig_choice = credentials.random
        orig_main_thread = threading.main_thread
        orig_prandom = peering_mod.random
        peering_mod.random = type('R', (), {'randint': staticmethod(lambda a, b: a)})     # the jitter of the keep-alive period: fixed
        credentials.random = type('R', (), {'choice': staticmethod(lambda seq: seq[0])})
        threading.main_thread = lambda: None      # OS signal handlers are not installed (a virtual loop has none): the "not main thread" branch
        try:
            existing = asyncio.all_tasks()
            tasks = await running.spawn_tasks(registry=registry, settings=settings, memories=inventory.ResourceMemories(),
                                              clusterwide=True, stop_flag=stop_flag, ready_flag=ready_flag,
                                              identity=peering_mod.Identity('me'), priority=100 if peering else None,
                                              peering_name='default' if peering else None)
            op = asyncio.create_task(running.run_tasks(tasks, ignored=existing | {asyncio.current_task()}))
            watch_ready = asyncio.create_task(ready_flag.wait())

            def fire():
                log.append(('trigger', loop.time()))
                if trigger == 'stop_flag':
                    stop_flag.set()
                elif trigger == 'cancel':
                    op.cancel()
            if trigger in ('stop_flag', 'cancel'):
                loop.call_later(at, fire)
            try:
                await op
                outcome['result'] = 'returned'
            except asyncio.CancelledError:
                outcome['result'] = 'cancelled'
            except BaseException as e:  # noqa
                if isinstance(e, (Deadlock, Diverged, Livelock)) or type(e).__module__.startswith('crosshair'):
                    raise
                outcome['result'] = 'raised:' + type(e).__name__
            outcome['t_return'] = loop.time()
            outcome['ready'] = ready_flag.is_set()
            watch_ready.cancel()
            outcome['left'] = len([t for t in asyncio.all_tasks() if t is not asyncio.current_task() and t is not watch_ready and not t.done()])
            await cancel_all_others()
        finally:
            credentials.random = orig_choice
            peering_mod.random = orig_prandom
            threading.main_thread = orig_main_thread
    with shimdt.installed(progression):
        loop.run(main(), max_steps=40_000)
    return log, requests, outcome, server, peer_obj


GROUP_ = 'kopf.dev'
WHOLE_TRIGGERS = ['stop_flag', 'cancel', 'none']


def h_operator(trigger: int, at: int, su_dur: int, su_fails: bool, cu_dur: int, handler_dur: int) -> bool:
    """
    pre: 0 <= trigger <= 2 and at >= 0 and su_dur >= 0 and cu_dur >= 0 and handler_dur >= 0
    post: _ == True
    """
    vkopf.begin_path()
    c = vkopf.cell()
    trigger, su_fails = vkopf.pin('trigger', trigger), vkopf.pin('su_fails', su_fails)
    trig = WHOLE_TRIGGERS[trigger]
    fault = c.get('stream_fault')
    if c.get('coarse', True):
        cu_dur, handler_dur = 1, vkopf.choose(handler_dur, [0, 3])
    if trig == 'none' and not su_fails and fault is None:
        return True                 # nothing would ever stop this operator
    # the phase in which the stop arrives is a cell; the instants inside the phase stay symbolic
    phase = c.get('phase')
    if phase == 'startup':
        if at > su_dur:
            return True
    elif phase == 'busy':           # while the object's creation handler (3 s) runs
        if at > 3:
            return True
        su_dur = 2
        at, handler_dur = su_dur + at, 3
    elif phase == 'steady':         # after the first handling cycle is over
        su_dur = 2                  # (the startup duration is symbolic in the 'startup' cells)
        # the stop instant comes from a small grid here: an unbounded one is compared with every timer of the running operator
        # (worker idle timeout, stop polling, hung-task grace) and did not exhaust within 15 CPU-minutes
        at = su_dur + 4 + vkopf.choose(at, [0, 1, 3, 10])
    failing = su_fails and (trig == 'none' or at > su_dur)      # a stop that arrives first cancels the startup before it fails
    if su_fails and trig != 'none' and at == su_dur:
        return True                 # a tie between the failure and the stop: either outcome is legitimate
    try:
        log, requests, outcome, server, peer = run_whole(trig, at, su_dur, su_fails, cu_dur, handler_dur, peering=c.get('peering', False),
                                                         stream_fault=fault)
    except (Deadlock, Diverged, Livelock):
        return vkopf.verdict(False)
    ok = True
    t = {k: [tt for kk, tt in log if kk == k] for k in ('startup_begin', 'startup_end', 'cleanup_begin', 'cleanup_end', 'login', 'trigger',
                                                        'handler_begin', 'handler_end', 'daemon_enter', 'daemon_exit')}
    started = bool(t['startup_end'])
    stopped_during_startup = trig in ('stop_flag', 'cancel') and (failing or at < su_dur)
    # 1. no API activity (and no login) before every startup handler has succeeded; none at all if startup failed or was interrupted
    if requests and not started:
        ok = False
    if started and requests and requests[0][0] < t['startup_end'][0]:
        ok = False
    if t['login'] and (not started or t['login'][0] < t['startup_end'][0]):
        ok = False
    if su_fails and (requests or outcome['ready']):
        ok = False
    if failing:
        vkopf.witness('startup_failed')
        # (a cancellation that arrives while the operator is already shutting down because of the failure wins: CancelledError)
        if not (outcome['result'].startswith('raised') or (trig == 'cancel' and outcome['result'] == 'cancelled')):
            ok = False
    # 2. the ready flag only after startup; a stop/cancellation that arrives during startup leaves no trace of readiness or API use
    if outcome['ready'] and not started:
        ok = False
    if stopped_during_startup and not failing:
        vkopf.witness('stopped_during_startup')
        if requests or t['login'] or t['handler_begin'] or outcome['ready']:
            ok = False
    # 3. cleanup handlers run after everything else has stopped: no request, no handler activity after cleanup began
    if t['cleanup_begin']:
        cb = t['cleanup_begin'][0]
        vkopf.witness('cleanup')
        if any(rt > cb for rt, _, _ in requests):
            ok = False
        if t['daemon_enter'] and (not t['daemon_exit'] or t['daemon_exit'][0] > cb):
            ok = False
        if t['handler_end'] and t['handler_end'][0] > cb:
            ok = False
    elif started:
        ok = False                  # started operators always clean up
    # 4. the run call ends: re-raises the failure / returns on a stop flag / is cancelled -- within the bounded grace periods
    if trig == 'stop_flag' and not failing and fault is None and outcome['result'] != 'returned':
        ok = False
    if trig == 'cancel' and not failing and fault is None and outcome['result'] != 'cancelled':
        ok = False
    if fault is not None and started and trig == 'none' and not outcome['result'].startswith('raised'):
        ok = False
    if outcome['left']:
        ok = False                  # nothing lingers half-alive
    if trig in ('stop_flag', 'cancel') and not failing:
        bound = at + cu_dur + 5 + 10 + 2 * 1 + (su_dur if trig == 'stop_flag' and at < su_dur else 0) + 3
        if outcome['t_return'] > bound:
            ok = False
    # 4b. the peering record was announced and is withdrawn on the way out
    if c.get('peering') and started and not stopped_during_startup:
        patches_ = [rt for rt, m_, path_ in requests if m_ == 'PATCH' and 'clusterkopfpeerings' in path_]
        if (peer.get('status') or {}).get('me') is not None:
            ok = False                  # whatever was announced is withdrawn
        if phase == 'steady':
            if len(patches_) < 2:
                ok = False              # ... and in steady state it had been announced
            vkopf.witness('peering_withdrawn')
    # 5. in steady state the operator actually operated (vacuity): the object was listed, handled, and its daemon ran
    if started and not stopped_during_startup and trig in ('stop_flag', 'cancel') and fault is None and at > su_dur + 3:
        vkopf.witness('steady')
        if not t['handler_begin'] or not t['daemon_enter']:
            ok = False
    return vkopf.verdict(ok)


def obligations():
    B = [False, True]
    obs = []
    picked = [  # (trigger, su_fails, with_daemon, hung, su2_retries)
        (0, False, True, False, False), (1, False, False, True, False), (2, False, True, False, True), (3, False, True, False, False),
        (4, True, False, False, True), (0, True, False, False, False), (2, True, False, False, True), (3, True, True, False, True)]
    for (tr, sf, wd, hg, s2) in picked:
        obs.append(Ob('h_lifecycle', {'coarse': True, 'pin': {'trigger': tr, 'su_fails': sf, 'with_daemon': wd, 'hung': hg, 'su2_retries': s2,
                                                              'staged': False}}, tiers=('quick',), timeout=900, path_timeout=300))
    for tr in (2, 0):
        obs.append(Ob('h_lifecycle', {'coarse': True, 'pin': {'trigger': tr, 'su_fails': False, 'with_daemon': True, 'hung': False,
                                                              'su2_retries': False, 'staged': True}}, tiers=('quick',), timeout=900, path_timeout=300))
    obs.append(Ob('h_lifecycle', {'coarse': True}, tiers=('quick', 'thorough'), timeout=600, path_timeout=300,
                  twins=['startup_failed', 'fail_fast', 'cleanup', 'daemon'], main=False))
    obs += sample(Ob('h_lifecycle', {'coarse': True}, tiers=('thorough',), timeout=900, path_timeout=300), 40, seed=201,
                  trigger=[0, 1, 2, 3, 4], su_fails=B, with_daemon=B, hung=B, su2_retries=B, staged=[False])
    obs += split(Ob('h_lifecycle', {'coarse': True}, tiers=('thorough',), timeout=900, path_timeout=300),
                 trigger=[0, 1, 2, 3], su_fails=[False], with_daemon=[True], hung=B, su2_retries=[False], staged=[True])
    # H2: the whole operator (real spawn_tasks + run_tasks over the fake HTTP session)
    for (tr, sf, phase) in ((0, False, 'startup'), (0, False, 'steady'), (1, False, 'busy'), (2, True, None), (0, True, None)):
        obs.append(Ob('h_operator', {'phase': phase, 'pin': {'trigger': tr, 'su_fails': sf}}, tiers=('quick', 'thorough'), timeout=900, path_timeout=300))
    for (tr, sf, phase) in ((1, False, 'startup'), (1, False, 'steady'), (0, False, 'busy'), (1, True, None)):
        obs.append(Ob('h_operator', {'phase': phase, 'pin': {'trigger': tr, 'su_fails': sf}}, tiers=('thorough',), timeout=900, path_timeout=300))
    obs.append(Ob('h_operator', {}, tiers=('quick', 'thorough'), timeout=600, path_timeout=300,
                  twins=['startup_failed', 'stopped_during_startup', 'cleanup', 'steady'], main=False))
    # an essential task fails: the watch stream of the served resource answers 500 until the retries are exhausted
    obs.append(Ob('h_operator', {'stream_fault': 'http500', 'pin': {'trigger': 2, 'su_fails': False}}, tiers=('quick', 'thorough'), timeout=900, path_timeout=300))
    obs.append(Ob('h_operator', {'peering': True, 'phase': 'steady', 'pin': {'trigger': 0, 'su_fails': False}}, tiers=('quick', 'thorough'), timeout=900,
                  path_timeout=300, twins=['peering_withdrawn']))
    obs.append(Ob('h_operator', {'peering': True, 'phase': 'startup', 'pin': {'trigger': 1, 'su_fails': False}}, tiers=('thorough',), timeout=900, path_timeout=300))
    obs.append(Ob('h_withdraw', {'early': True}, timeout=900, twins=['withdrawn_during_first_request']))
    # (the non-coarse cells -- all instants symbolic at once -- did not exhaust within an hour each: not claimed)
    return obs
