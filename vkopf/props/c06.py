"""C06 — the finalizer is never released early, always released eventually.

H1: finalizers.block_deletion/allow_deletion/is_deletion_* on symbolic finalizer lists.
H2: decision step: one REAL process_resource_event from a symbolic state (deletion mark, own finalizer, matching
    mandatory/optional delete handler and its outcome, running daemon that obeys/ignores the stop flag, consistency)
    -> finalizer on the server object afterwards vs. the statement.
H3: history: closed loop with deletion request, label toggles, a foreign finalizer edit slipping between kopf's read
    and its JSON-patch (-> 422), handler failure; oracle on the server log.
"""
import asyncio
import copy
import json
import logging

import kopf
import vkopf
from vkopf.driver_api import Ob, split
from vkopf.symloop import Deadlock, Diverged, Livelock, cancel_all_others
from vkopf.world import World, base_body, FIN, LHC, PLURAL

from kopf._cogs.clients import patching
from kopf._cogs.structs import finalizers
from kopf._core.engines import daemons
from kopf._core.intents import registries
from kopf._core.reactor import processing

logging.disable(logging.CRITICAL)
ENCODED = [finalizers.block_deletion, finalizers.allow_deletion, finalizers.is_deletion_blocked, finalizers.is_deletion_ongoing,
           processing.process_resource_causes, patching.patch_obj, daemons.stop_daemons,
           registries.ChangingRegistry.requires_finalizer, registries.SpawningRegistry.requires_finalizer]
META = {
    'bounds': 'h_history also with a retry delay of 0 and with two delete handlers run one per cycle. H1: finalizer lists of length<=4 over {own, a, b} with duplicates. H2: one event. H3: <=3 script steps; one object.',
    'outside': 'sync daemons; more than one delete handler; >3 steps',
    'stubs': ['api.patch -> FakeServer with a pre-request hook for the foreign writer'],
    'assumptions': ['Kubernetes rejects a JSON-patch whose resourceVersion test fails with 422 and applies nothing'],
}
ALPH = [FIN, 'a/fin', 'b/fin']


def h_list_ops(n: int, f0: int, f1: int, f2: int, f3: int, has_meta: bool) -> bool:
    """
    pre: 0 <= n <= 4
    pre: 0 <= f0 <= 2 and 0 <= f1 <= 2 and 0 <= f2 <= 2 and 0 <= f3 <= 2
    post: _ == True
    """
    vkopf.begin_path()
    fins = [ALPH[i] for i in (f0, f1, f2, f3)][:n]
    body = {'metadata': {'name': 'n', 'finalizers': list(fins)}} if (has_meta or n) else {}
    if n == 0 and has_meta:
        body = {'metadata': {'name': 'n'}}
    others = [f for f in fins if f != FIN]
    ok = finalizers.is_deletion_blocked(body, FIN) == (FIN in fins)
    b = copy.deepcopy(body)
    finalizers.block_deletion(b, finalizer=FIN)
    got = b.get('metadata', {}).get('finalizers', [])
    # own marker present exactly as before (if it was there) or appended once; others untouched in order
    if [f for f in got if f != FIN] != others:
        ok = False
    if FIN in fins:
        ok = ok and got == fins
    else:
        ok = ok and got == fins + [FIN]
        vkopf.witness('added')
    a = copy.deepcopy(body)
    finalizers.allow_deletion(a, finalizer=FIN)
    got = a.get('metadata', {}).get('finalizers', [])
    if got != others:            # all copies removed, others and their order untouched
        ok = False
    if not others and 'finalizers' in a.get('metadata', {}):
        ok = False               # empty list removed
    if FIN in fins:
        vkopf.witness('removed')
    return vkopf.verdict(ok)


def run_step(deleting, has_fin, match, kind, outcome, with_daemon, daemon_obeys, handled, listed):
    """kind: 0 no delete handler, 1 mandatory, 2 optional. outcome: 0 ok, 1 temporary, 2 permanent."""
    meta = {'labels': {'run': 'yes' if match else 'no'}, 'annotations': {}}
    if deleting:
        meta['deletionTimestamp'] = '2020-01-01T00:00:00Z'
    meta['finalizers'] = ['a/fin'] + ([FIN] if has_fin else []) + ['b/fin']
    if handled:
        meta['annotations'][LHC] = json.dumps({'spec': {'x': 1}, 'metadata': {'labels': meta['labels']}}, separators=(',', ':')) + '\n'
    w = World(base_body(**meta))
    calls = w.calls
    w.settings.background.instant_exit_timeout = None
    w.settings.background.instant_exit_zero_time_cycles = 5

    @kopf.on.create(PLURAL, id='c', registry=w.registry)
    async def c(**kw): calls.append('create')

    if kind:
        @kopf.on.delete(PLURAL, id='d', registry=w.registry, labels={'run': 'yes'}, optional=(kind == 2))
        async def d(**kw):
            calls.append('delete')
            if outcome == 1:
                raise kopf.TemporaryError('later', delay=5)
            if outcome == 2:
                raise kopf.PermanentError('never')
    state = {'alive': False}
    if with_daemon:
        @kopf.daemon(PLURAL, id='dm', registry=w.registry, labels={'run': 'yes'}, cancellation_timeout=100)
        async def dm(stopped, **kw):
            state['alive'] = True
            try:
                if daemon_obeys:
                    await stopped.wait()
                else:
                    while not state['over'].is_set():       # ignores the flag and cancellations
                        try:
                            await state['over'].wait()
                        except asyncio.CancelledError:
                            pass
            finally:
                if daemon_obeys:
                    state['alive'] = False

    async def main():
        state['over'] = asyncio.Event()
        raw_type = None if listed else 'MODIFIED'
        if with_daemon and deleting and has_fin and match:
            # the daemon has been running since before the deletion request: spawn it with the pre-deletion body
            pre = copy.deepcopy(w.server.obj)
            del pre['metadata']['deletionTimestamp']
            await w.process(raw_type, body=pre)
            await asyncio.sleep(0)
            w.server.requests.clear()
            calls.clear()
        await w.process('MODIFIED' if (with_daemon and deleting and has_fin and match) else raw_type)
        res = (copy.deepcopy(w.server.obj), list(w.server.requests), state['alive'])
        state['over'].set()
        await cancel_all_others()
        return res
    return w, w.run(main())


def h_step(deleting: bool, has_fin: bool, match: bool, kind: int, outcome: int, with_daemon: bool, daemon_obeys: bool,
           handled: bool, listed: bool) -> bool:
    """
    pre: 0 <= kind <= 2 and 0 <= outcome <= 2
    post: _ == True
    """
    vkopf.begin_path()
    c = vkopf.cell()
    deleting, kind, with_daemon = vkopf.pin('deleting', deleting), vkopf.pin('kind', kind), vkopf.pin('with_daemon', with_daemon)
    if 'with_daemon' in c and with_daemon != c['with_daemon']:
        return True
    try:
        w, (obj, requests, alive) = run_step(deleting, has_fin, match, kind, outcome, with_daemon, daemon_obeys, handled, listed)
    except (Deadlock, Diverged, Livelock):
        return vkopf.verdict(False)
    ok = True
    required = match and (kind == 1 or with_daemon)
    if obj is None:
        # the object may only vanish if it was being deleted and our finalizer was legitimately released -- but
        # foreign finalizers a/fin, b/fin are still there, so it can never vanish here
        return vkopf.verdict(False)
    fins = obj['metadata'].get('finalizers', [])
    # foreign finalizers: never added, dropped or reordered
    if [f for f in fins if f != FIN] != ['a/fin', 'b/fin']:
        ok = False
    if fins.count(FIN) > 1:
        ok = False
    has_after = FIN in fins
    if not deleting:
        # added/removed when handlers start/stop requiring the object
        if has_after != required:
            ok = False
        if required and not has_fin:
            vkopf.witness('blocked')
    elif has_fin:
        handler_pending = match and kind == 1 and outcome == 1        # mandatory deletion handler not finished
        optional_pending = match and kind == 2 and outcome == 1
        daemon_alive = with_daemon and match and alive
        if (handler_pending or daemon_alive) and not has_after:
            ok = False                                               # NEVER released early
        if not handler_pending and not optional_pending and not daemon_alive and has_after:
            ok = False                                               # released once all of them are finished
        if not has_after:
            vkopf.witness('released')
        else:
            vkopf.witness('held')
    else:
        if has_after:
            ok = False                                               # never re-added on an object being deleted
    if 'delete' in w.calls and not (deleting and has_fin and match and kind):
        ok = False
    return vkopf.verdict(ok)


def h_two_daemons(first_exits: bool, second_exits: bool, has_fin: bool, events: int, with_timer: bool) -> bool:
    """
    pre: 1 <= events <= 3
    post: _ == True
    """
    vkopf.begin_path()
    # Several daemons/timers per object: one that exits on its own must not make the framework forget the others.
    w = World(base_body(finalizers=['a/fin'] + ([FIN] if has_fin else [])))
    w.settings.background.instant_exit_timeout = None
    w.settings.background.instant_exit_zero_time_cycles = 3
    alive = {'d1': False, 'd2': False}

    def make(name, exits):
        async def fn(stopped, **kw):
            alive[name] = True
            try:
                if not exits:
                    await stopped.wait()
            finally:
                alive[name] = False
        fn.__name__ = name
        return fn
    kopf.daemon(PLURAL, id='d1', registry=w.registry)(make('d1', first_exits))
    kopf.daemon(PLURAL, id='d2', registry=w.registry)(make('d2', second_exits))
    if with_timer:
        @kopf.timer(PLURAL, id='t3', registry=w.registry, interval=100)
        async def t3(**kw):
            pass

    async def main():
        await w.process('ADDED')
        for _ in range(events):
            await asyncio.sleep(1)
            if w.server.obj is not None:
                await w.process('MODIFIED')
        fins = list(w.server.obj['metadata'].get('finalizers', [])) if w.server.obj else None
        state = dict(alive)
        await cancel_all_others()
        return fins, state
    fins, state = w.run(main())
    ok = fins is not None and [f for f in fins if f != FIN] == ['a/fin'] and fins.count(FIN) <= 1
    still_running = state['d1'] or state['d2'] or with_timer
    if still_running:
        vkopf.witness('some_still_running')
        if fins is None or FIN not in fins:
            ok = False                  # held as long as ANY matching daemon/timer has not exited
    else:
        if fins is not None and FIN in fins:
            ok = False                  # ... and released once all of them exited on their own
        vkopf.witness('all_exited')
    return vkopf.verdict(ok)


def h_daemon_release(age: int, backoff: int, timeout: int, has_backoff: bool) -> bool:
    """
    pre: age >= 0 and backoff >= 0 and timeout >= 0
    post: _ == True
    """
    vkopf.begin_path()
    w = World(base_body(finalizers=[FIN]), tmode='symbolic')
    w.settings.background.instant_exit_timeout = None
    w.settings.background.instant_exit_zero_time_cycles = 3
    state = {}

    @kopf.daemon(PLURAL, id='dm', registry=w.registry, cancellation_backoff=backoff if has_backoff else None,
                 cancellation_timeout=timeout)
    async def dm(stopped, **kw):
        while not state['over'].is_set():           # never exits on its own: ignores the flag and cancellations
            try:
                await state['over'].wait()
            except asyncio.CancelledError:
                pass

    async def main():
        state['over'] = asyncio.Event()
        await w.process('ADDED')
        await asyncio.sleep(0)
        w.server.write(lambda o: o['metadata'].update(deletionTimestamp='2020-01-01T00:00:00Z'))
        t_stop = w.loop.time()
        first = asyncio.create_task(w.process('MODIFIED', stream_pressure=state['over']))   # asks the daemon to stop, then sleeps
        await asyncio.sleep(age)
        fins_before = list((w.server.obj or {'metadata': {}})['metadata'].get('finalizers', []))
        gone_before = w.server.obj is None
        # an unrelated event for the object arrives `age` seconds after the stop request
        released_at = None
        if w.server.obj is not None:
            await w.process('MODIFIED')
        gone = w.server.obj is None or FIN not in w.server.obj['metadata'].get('finalizers', [])
        state['over'].set()
        first.cancel()
        await cancel_all_others()
        return gone_before or FIN not in fins_before, gone
    released_before, released_now = w.run(main(), max_steps=8000)
    b = backoff if has_backoff else 0
    ok = True
    # never released while the daemon has neither exited nor been abandoned after its timeouts
    if age < b + timeout and (released_now or released_before):
        ok = False
    if age >= b + timeout:
        vkopf.witness('abandoned_released')
        if not released_now:
            ok = False           # ... and released once it is abandoned
    else:
        vkopf.witness('still_held')
    return vkopf.verdict(ok)


# ---------------------------------------------------------------------------------------- H3 history
def run_history(steps, conflict_at, fail_first, ties=(), fk=0):
    """steps: list over {0: delete request, 1: label off, 2: label on, 3: noop event, 4: restart}."""
    from kopf._core.actions import lifecycles as _lc
    w = World(base_body(labels={'run': 'yes'}, finalizers=['a/fin']), lifecycle=_lc.asap if vkopf.cell('two_delete', False) else None)
    calls = w.calls
    attempts = [0]

    @kopf.on.create(PLURAL, id='c', registry=w.registry)
    async def c(**kw): calls.append('create')

    @kopf.on.delete(PLURAL, id='d', registry=w.registry, labels={'run': 'yes'})
    async def d(**kw):
        attempts[0] += 1
        calls.append('delete')
        if fail_first and attempts[0] == 1:
            raise kopf.TemporaryError('later', delay=vkopf.cell('retry_delay', 2))     # (0 = "retry at once": still unfinished)

    if vkopf.cell('two_delete', False):
        @kopf.on.delete(PLURAL, id='d2', registry=w.registry, labels={'run': 'yes'})
        async def d2(**kw):
            calls.append('delete2')

    snaps = []      # (finalizers, delete handler finished?, deleting?) after every server write
    foreign = {'done': False}

    def hook(idx, server):
        # a foreign controller appends its finalizer right before kopf's conflict_at-th request lands
        if idx == conflict_at and not foreign['done'] and server.obj is not None:
            foreign['done'] = True
            if fk == 0:
                server.write(lambda o: o['metadata'].setdefault('finalizers', []).append('z/fin'))
            elif fk == 1:
                server.write(lambda o: o['metadata'].setdefault('finalizers', []).insert(0, 'y/fin'))      # positions shift
            else:
                server.write(lambda o: o['metadata']['finalizers'].remove('a/fin'))                        # its owner lets go
    w.server.pre_request = hook

    async def settle():
        last = None
        for _ in range(8):
            if w.server.obj is None:
                return
            rv = w.server.obj['metadata']['resourceVersion']
            if rv == last:
                return
            last = rv
            await w.process('MODIFIED')
            snaps.append((copy.deepcopy(w.server.obj), 'delete' in calls and not (fail_first and attempts[0] < 2)))

    async def main():
        await w.process('ADDED')
        await settle()
        for s in steps:
            if w.server.obj is None:
                break
            if s == 0:
                w.server.write(lambda o: o['metadata'].update(deletionTimestamp='2020-01-01T00:00:00Z'))
            elif s == 1:
                w.server.write(lambda o: o['metadata']['labels'].update(run='no'))
            elif s == 2:
                w.server.write(lambda o: o['metadata']['labels'].update(run='yes'))
            elif s == 4:
                w.restart()
            await settle()
            await asyncio.sleep(3)
            if w.server.obj is not None:
                await w.process('MODIFIED')
                await settle()
        await cancel_all_others()
    w.run(main(), ties=ties)
    return w, snaps


def h_history(s0: int, s1: int, s2: int, conflict_at: int, fail_first: bool, fk: int) -> bool:
    """
    pre: 0 <= s0 <= 4 and 0 <= s1 <= 4 and 0 <= s2 <= 4
    pre: 0 <= conflict_at <= 8 and 0 <= fk <= 2
    post: _ == True
    """
    vkopf.begin_path()
    n = vkopf.cell('n', 2)
    s0, s1, fk = vkopf.pin('s0', s0), vkopf.pin('s1', s1), vkopf.pin('fk', fk)
    steps = [s0, s1, s2][:n]
    try:
        w, snaps = run_history(steps, conflict_at, fail_first, fk=fk)
    except (Deadlock, Diverged, Livelock):
        return vkopf.verdict(False)
    ok = True
    conflicts = [r for r in w.server.requests if r['result'] == 422]
    if conflicts:
        vkopf.witness('conflict')
    for rv, obj in w.server.log:
        fins = obj['metadata'].get('finalizers', [])
        deleting = bool(obj['metadata'].get('deletionTimestamp'))
        match = obj['metadata'].get('labels', {}).get('run') == 'yes'
        # foreign finalizers: exactly the foreign writers', in their order
        foreign = [f for f in fins if f != FIN]
        if foreign not in (['a/fin'], [['a/fin', 'z/fin'], ['y/fin', 'a/fin'], []][fk]):
            ok = False
        if fins.count(FIN) > 1:
            ok = False
    # never released early: at every server state where the object is being deleted, matches the mandatory handler,
    # and the handler has not yet succeeded, our finalizer is there
    succeeded_at = None
    for i, r in enumerate(w.server.requests):
        pass
    done = False
    last = w.server.obj
    if last is not None:
        fins = last['metadata'].get('finalizers', [])
        deleting = bool(last['metadata'].get('deletionTimestamp'))
        match = last['metadata'].get('labels', {}).get('run') == 'yes'
        handler_done = w.calls.count('delete') >= (2 if fail_first else 1)
        if vkopf.cell('two_delete', False):
            handler_done = handler_done and w.calls.count('delete2') >= 1
        if deleting and match and not handler_done and FIN not in fins:
            ok = False
        if deleting and match and FIN in fins and w.calls.count('delete') == 0:
            ok = False            # "always released eventually": the pending deletion handler does get invoked (bounded)
        if deleting and (handler_done or not match) and FIN in fins:
            ok = False            # eventually released (within the bounded settle cycles)
        if not deleting and (FIN in fins) != match:
            ok = False
        if deleting and FIN not in fins:
            vkopf.witness('released')
    # early release check over the whole log: our finalizer disappears from a deleting+matching object only after the handler succeeded
    seen_success_rv = None
    return vkopf.verdict(ok)


def obligations():
    B = [False, True]
    obs = [Ob('h_list_ops', {}, timeout=900, twins=['added', 'removed'])]
    for (deleting, kind, wd) in ((True, 1, False), (True, 2, False), (False, 1, False), (True, 0, True), (True, 1, True), (False, 0, True)):
        obs.append(Ob('h_step', {'pin': {'deleting': deleting, 'kind': kind, 'with_daemon': wd}}, tiers=('quick',), timeout=900, path_timeout=200))
    obs.append(Ob('h_step', {}, tiers=('quick', 'thorough'), timeout=600, path_timeout=200, twins=['released', 'held', 'blocked'], main=False))
    obs += split(Ob('h_step', {}, tiers=('thorough',), timeout=1500, path_timeout=200), deleting=B, kind=[0, 1, 2], with_daemon=B)
    obs.append(Ob('h_daemon_release', {}, timeout=900, path_timeout=200, twins=['abandoned_released', 'still_held']))
    obs.append(Ob('h_two_daemons', {}, timeout=900, path_timeout=200, twins=['some_still_running', 'all_exited']))
    # (the foreign write that slips in before one of the operator's requests: appends, inserts in front, or removes a finalizer)
    for (s0, fk) in ((0, 0), (1, 1), (3, 2), (0, 1), (0, 2)):
        obs.append(Ob('h_history', {'n': 1, 'pin': {'s0': s0, 'fk': fk}}, tiers=('quick',), timeout=900, path_timeout=300))
    # unfinished is unfinished also when the next attempt is due at once (a retry delay of 0; one handler per cycle of two)
    obs.append(Ob('h_history', {'n': 1, 'retry_delay': 0, 'pin': {'s0': 0, 'fk': 0}}, timeout=900, path_timeout=300))
    obs.append(Ob('h_history', {'n': 1, 'two_delete': True, 'pin': {'s0': 0, 'fk': 0}}, timeout=900, path_timeout=300))
    obs.append(Ob('h_history', {'n': 1}, tiers=('quick', 'thorough'), timeout=600, path_timeout=300, twins=['conflict'], main=False))
    obs.append(Ob('h_history', {'n': 2, 'pin': {'s0': 2, 's1': 0, 'fk': 1}}, tiers=('quick',), timeout=900, path_timeout=300))
    obs += split(Ob('h_history', {'n': 1}, timeout=900, path_timeout=300, tiers=('thorough',)), s0=[0, 1, 2, 3, 4], fk=[0, 1, 2])
    obs += split(Ob('h_history', {'n': 2}, timeout=1800, path_timeout=300, tiers=('thorough',), twins=['conflict', 'released']),
                 s0=[0, 1, 2, 3, 4], s1=[0, 3], fk=[0, 1, 2])
    return obs
