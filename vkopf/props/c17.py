"""C17 — in-memory indices mirror the cluster; handling waits for the initial index.

H1 (data structure): Index._replace/_discard/Store via OperatorIndexer from a state built by symbolic ops.
H2 (rules): real indexing.index_resource (registries, execution, progression) with a symbolic script of
    index-function outcomes for 2 objects with colliding index keys; reference = documented rules.
H3 (gate): real queueing.watcher x2 + real process_resource_event on SymLoop: no change handler before every
    indexed kind was listed and each listed object indexed once.
"""
import asyncio
import logging

import kopf
import vkopf
from vkopf.driver_api import Ob, split, sample
from vkopf.symloop import SymLoop, Deadlock, Diverged, Livelock, cancel_all_others
from vkopf.world import make_resource, PLURAL, base_body

from kopf._cogs.aiokits import aiotoggles
from kopf._cogs.configs import configuration
from kopf._cogs.structs import bodies, ephemera, references
from kopf._core.actions import lifecycles
from kopf._core.engines import indexing
from kopf._core.intents import registries
from kopf._core.reactor import inventory, processing, queueing
from kopf._cogs.clients import watching as watching_mod

logging.disable(logging.CRITICAL)
ENCODED = [indexing.Index._replace, indexing.Index._discard, indexing.Store._replace, indexing.Store._discard,
           indexing.OperatorIndexer.replace, indexing.OperatorIndexers.replace, indexing.OperatorIndexers.discard,
           indexing.index_resource, processing.process_resource_event, queueing.watcher]
META = {
    'bounds': 'h_gate also with the indexed kind served in two namespaces (two watchers, two listings). H1: <=4 symbolic ops (replace with a symbolic 0-2 key mapping or scalar / discard) over 2 objects x 2 keys, '
              'symbolic values. H2: 2 events over 2 objects (3 events per cell do not exhaust within 20 CPU-minutes and are not claimed; symbolic which object, event type, label match, outcome kind in '
              'dict/scalar/None/Temporary(delay 0 or 60)/Permanent/arbitrary-ignored, symbolic key and value). H3: 2 resource kinds, '
              '<=2 listed objects, symbolic listing delays and tie-breaks.',
    'outside': 'more than 2 objects/keys; retries/timeouts of index handlers beyond one retry; sync index functions',
    'stubs': ['watching.infinite_watch -> scripted listing generator (H3)', 'api.patch -> recording stub (H3)'],
    'assumptions': [],
}
KEYS = [('ns', 'o1', 'u1'), ('ns', 'o2', 'u2')]
IKEYS = ['k1', 'k2']


def _key(x):
    return (x is None, 0 if x is None else x)       # (repr() of symbolic numbers is opaque: order by value)


def snapshot(index):
    return {k: sorted(list(index[k]), key=_key) for k in index}


def ref_snapshot(ref):
    """ref: {acckey: {ikey: val}} -> {ikey: sorted vals}"""
    out = {}
    for acc, mapping in ref.items():
        for ik, v in mapping.items():
            out.setdefault(ik, []).append(v)
    return {k: sorted(v, key=_key) for k, v in out.items()}


def _mapping(shape, v1, v2):
    """shape: 0 {} ; 1 {k1:v1}; 2 {k2:v1}; 3 {k1:v1,k2:v2}; 4 scalar v1 (-> {None: v1})"""
    if shape == 0:
        return {}
    if shape == 1:
        return {'k1': v1}
    if shape == 2:
        return {'k2': v1}
    if shape == 3:
        return {'k1': v1, 'k2': v2}
    return v1


def h_index_ops(n: int, o0: bool, o1: bool, o2: bool, o3: bool, d0: bool, d1: bool, d2: bool, d3: bool,
                s0: int, s1: int, s2: int, s3: int, v0: int, v1: int, v2: int, v3: int) -> bool:
    """
    pre: 1 <= n <= 4
    pre: 0 <= s0 <= 4 and 0 <= s1 <= 4 and 0 <= s2 <= 4 and 0 <= s3 <= 4
    post: _ == True
    """
    vkopf.begin_path()
    n = vkopf.pin('n', n)
    s0, s1, s2 = vkopf.pin('s0', s0), vkopf.pin('s1', s1), vkopf.pin('s2', s2)
    indexer = indexing.OperatorIndexer()
    ref = {}
    objs, discs, shapes, vals = [o0, o1, o2, o3], [d0, d1, d2, d3], [s0, s1, s2, s3], [v0, v1, v2, v3]
    ok = True
    for i in range(n):
        acc = KEYS[1 if objs[i] else 0]
        if discs[i]:
            indexer.discard(acc)
            ref.pop(acc, None)
        else:
            m = _mapping(shapes[i], vals[i], vals[i] + 1)
            indexer.replace(acc, m)
            ref[acc] = dict(m) if isinstance(m, dict) else {None: m}
            if not ref[acc]:
                del ref[acc]
        snap = snapshot(indexer.index)
        if snap != ref_snapshot(ref):
            ok = False
        # no empty stores are left behind; len/contains agree
        if any(len(indexer.index[k]) == 0 for k in indexer.index):
            ok = False
        if len(indexer.index) != len(ref_snapshot(ref)):
            ok = False
    if len(ref) == 2:
        vkopf.witness('two_objects')
    return vkopf.verdict(ok)


# ------------------------------------------------------------------------------------ H2
def run_events(script, errors_mode):
    """script: list of (obj, deleted, matching, kind, key, val)."""
    registry = registries.OperatorRegistry()
    indexers = indexing.OperatorIndexers()
    plan = {}
    invoked = []

    @kopf.index(PLURAL, id='idx', registry=registry, labels={'app': 'x'}, errors=errors_mode, backoff=60)
    async def idx(name, **kw):
        kind, key, val = plan['now']
        invoked.append(name)
        if kind == 0:
            return {IKEYS[key]: val}
        if kind == 1:
            return val
        if kind == 2:
            return None
        if kind == 3:
            raise kopf.TemporaryError('t', delay=60)
        if kind == 4:
            raise kopf.PermanentError('p')
        if kind == 5:
            raise ValueError('arbitrary')
        return {IKEYS[0]: val, IKEYS[1]: val}

    indexers.ensure(registry._indexing.get_all_handlers())
    settings = configuration.OperatorSettings()
    resource = make_resource()
    memories = inventory.ResourceMemories()
    loop = SymLoop()
    snaps = []

    async def main():
        for obj, deleted, matching, kind, key, val in script:
            name = 'o2' if obj else 'o1'
            raw = base_body(name=name, uid='u2' if obj else 'u1', labels={'app': 'x'} if matching else {'app': 'y'})
            plan['now'] = (kind, key, val)
            before = len(invoked)
            memory = await memories.recall(raw, memobase=ephemera.Memo())
            await indexing.index_resource(
                indexers=indexers, registry=registry, settings=settings, resource=resource,
                raw_event={'type': 'DELETED' if deleted else 'MODIFIED', 'object': raw},
                memory=memory.indexing_memory, logger=logging.getLogger('x'), memo=memory.memo, body=bodies.Body(raw))
            snaps.append((snapshot(indexers['idx'].index), len(invoked) > before))
    loop.run(main())
    return snaps


def h_index_rules(n: int, o0: bool, o1: bool, o2: bool, del0: bool, del1: bool, del2: bool,
                  m0: bool, m1: bool, m2: bool, k0: int, k1: int, k2: int,
                  i0: bool, i1: bool, i2: bool, v0: int, v1: int, v2: int) -> bool:
    """
    pre: 1 <= n <= 3
    pre: 0 <= k0 <= 6 and 0 <= k1 <= 6 and 0 <= k2 <= 6
    post: _ == True
    """
    vkopf.begin_path()
    c = vkopf.cell()
    n = c.get('n', n)
    k0, k1 = vkopf.pin('k0', k0), vkopf.pin('k1', k1)
    o0, m0, o1, del0 = vkopf.pin('o0', o0), vkopf.pin('m0', m0), vkopf.pin('o1', o1), vkopf.pin('del0', del0)
    v0, v1, v2 = vkopf.choose(v0, [5, 6]), vkopf.choose(v1, [5, 7]), vkopf.choose(v2, [6, 8])
    mode = {'ignored': kopf.ErrorsMode.IGNORED, 'temporary': kopf.ErrorsMode.TEMPORARY,
            'permanent': kopf.ErrorsMode.PERMANENT}[c.get('errors', 'ignored')]
    script = list(zip([o0, o1, o2], [del0, del1, del2], [m0, m1, m2], [k0, k1, k2],
                      [1 if x else 0 for x in (i0, i1, i2)], [v0, v1, v2]))[:n]
    try:
        snaps = run_events(script, mode)
    except (Deadlock, Diverged, Livelock):
        return vkopf.verdict(False)
    # reference semantics (docs/indexing.rst): latest results of matching live objects; removed on deletion,
    # filter mismatch, temporary/permanent error; kept on None and ignored errors; excluded after a
    # permanent error (never invoked again) and while a temporary error's delay lasts (time stands still here).
    ref, excluded = {}, set()
    ok = True
    for (obj, deleted, matching, kind, key, val), (snap, was_invoked) in zip(script, snaps):
        acc = KEYS[1 if obj else 0]
        if deleted:
            ref.pop(acc, None)
            expect_invoked = False
        elif not matching:
            ref.pop(acc, None)
            expect_invoked = False
        elif acc in excluded:
            ref.pop(acc, None)
            expect_invoked = False
        else:
            expect_invoked = True
            eff = kind
            if kind == 5:
                eff = {'ignored': 2, 'temporary': 3, 'permanent': 4}[c.get('errors', 'ignored')]
            if eff == 0:
                ref[acc] = {IKEYS[key]: val}
            elif eff == 1:
                ref[acc] = {None: val}
            elif eff == 6:
                ref[acc] = {IKEYS[0]: val, IKEYS[1]: val}
            elif eff == 2:
                pass
            else:
                ref.pop(acc, None)
                excluded.add(acc)
                vkopf.witness('error_removed')
        if snap != ref_snapshot(ref):
            ok = False
        if was_invoked != expect_invoked:
            ok = False
    return vkopf.verdict(ok)


# ------------------------------------------------------------------------------------ H3 the start-up gate
RA = references.Resource('kopf.dev', 'v1', 'indexedthings', namespaced=True, kind='IndexedThing')
RB = references.Resource('kopf.dev', 'v1', 'plainthings', namespaced=True, kind='PlainThing')


def run_gate(la, lb, na, idx_dur, ties=()):
    """Real orchestration.spawn_missing_watchers -> queueing.watcher/worker -> process_resource_event (indexing + handlers)
    for an indexed kind A and a non-indexed kind B whose initial listings arrive after symbolic delays."""
    import functools
    from kopf._cogs.clients import api as api_
    from kopf._core.reactor import orchestration
    from vkopf import shimdt
    from kopf._core.actions import progression
    loop = SymLoop()
    registry = registries.OperatorRegistry()
    indexers = indexing.OperatorIndexers()
    log = []

    @kopf.index('indexedthings', id='idx', registry=registry)
    async def idx(name, **_):
        if idx_dur > 0:
            await asyncio.sleep(idx_dur)
        log.append(('indexed', loop.time(), name))
        return {name: 1}

    @kopf.on.event('plainthings', id='evb', registry=registry)
    async def evb(name, idx, **_):
        log.append(('handler', loop.time(), name, len(idx)))

    @kopf.on.event('indexedthings', id='eva', registry=registry)
    async def eva(name, idx, **_):
        log.append(('handler', loop.time(), name, len(idx)))

    indexers.ensure(registry._indexing.get_all_handlers())
    settings = configuration.OperatorSettings()
    settings.queueing.idle_timeout = 1
    settings.persistence.consistency_timeout = 0
    memories = inventory.ResourceMemories()

    def body(res, name):
        return {'apiVersion': 'kopf.dev/v1', 'kind': res.kind, 'metadata': {'name': name, 'namespace': 'ns', 'uid': f'{res.plural}-{name}',
                                                                              'resourceVersion': '1'}, 'spec': {}}

    two_ns = vkopf.cell().get('two_ns', False)     # the indexed kind served in two namespaces (two watchers, two listings)

    async def fake_watch(*, settings, resource, namespace, operator_paused=None):
        if two_ns:
            delay, names = (la, [f'a{i}' for i in range(na)]) if namespace == 'ns1' else (lb, ['b0'])
        else:
            delay, names = (la, [f'a{i}' for i in range(na)]) if resource == RA else (lb, ['b0'])
        if delay > 0:
            await asyncio.sleep(delay)
        for n in names:
            yield {'type': None, 'object': body(resource, n)}
        log.append(('listed', loop.time(), resource.plural, namespace))
        yield watching_mod.Bookmark.LISTED
        await asyncio.Event().wait()

    async def fake_patch(url, **kw):
        return {'metadata': {'resourceVersion': '2'}}

    async def main():
        orig = (queueing.watching.infinite_watch, api_.patch)
        queueing.watching.infinite_watch = fake_watch
        api_.patch = fake_patch
        try:
            paused = aiotoggles.ToggleSet(any)
            ensemble = orchestration.Ensemble(operator_paused=paused, operator_indexed=aiotoggles.ToggleSet(all),
                                              peering_missing=await paused.make_toggle(name='pm'))
            processor = functools.partial(processing.process_resource_event, lifecycle=None, registry=registry, settings=settings,
                                          indexers=indexers, memories=memories, memobase=ephemera.Memo(), event_queue=asyncio.Queue())
            from kopf._core.actions import lifecycles
            processor = functools.partial(processor, lifecycle=lifecycles.all_at_once)
            await orchestration.spawn_missing_watchers(ensemble=ensemble, settings=settings, processor=processor,
                                                       indexed_resources={RA}, watched_resources=[RA] if two_ns else [RA, RB],
                                                       watched_namespaces=['ns1', 'ns2'] if two_ns else [None])
            await asyncio.sleep(la + lb + (na + 1) * idx_dur + 10)
            await cancel_all_others()
        finally:
            queueing.watching.infinite_watch, api_.patch = orig
    with shimdt.installed(progression):
        loop.run(main(), ties=ties, max_steps=20000)
    return log


def h_gate(la: int, lb: int, na: int, idx_dur: int, t0: bool, t1: bool) -> bool:
    """
    pre: la >= 0 and lb >= 0 and 0 <= na <= 2 and idx_dur >= 0
    post: _ == True
    """
    vkopf.begin_path()
    na = vkopf.pin('na', na)
    try:
        log = run_gate(la, lb, na, idx_dur, ties=[t0, t1])
    except (Deadlock, Diverged, Livelock):
        return vkopf.verdict(False)
    ok = True
    listed_a = [e[1] for e in log if e[0] == 'listed' and e[2] == 'indexedthings']
    indexed = [e[1] for e in log if e[0] == 'indexed']
    handlers_ = [e for e in log if e[0] == 'handler']
    two_ns = vkopf.cell().get('two_ns', False)
    total = na + 1 if two_ns else na          # objects of the indexed kind (in the two-namespace cell b0 is one of them)
    if len(handlers_) != na + 1 or len(indexed) != total or not listed_a or (two_ns and len(listed_a) != 2):
        ok = False
    ready = 0
    for t in listed_a + indexed:
        if t > ready:
            ready = t
    for (_, t, name, size) in handlers_:
        # nothing starts before every indexed kind has been listed (in every served namespace) and each listed object indexed once
        if t < ready or size != total:
            ok = False
    if lb < la:
        vkopf.witness('plain_kind_listed_first')
    return vkopf.verdict(ok)


def obligations():
    obs = split(Ob('h_index_ops', {}, timeout=900, twins=['two_objects']), n=[1, 2])
    for (s0, s1) in ((3, 1), (1, 4), (3, 3), (2, 0)):
        obs.append(Ob('h_index_ops', {'pin': {'n': 3, 's0': s0, 's1': s1}}, tiers=('quick',), timeout=900))
    obs += split(Ob('h_index_ops', {}, timeout=1500, tiers=('thorough',)), n=[3], s0=[0, 1, 2, 3, 4], s1=[0, 1, 2, 3, 4])
    obs += sample(Ob('h_index_ops', {'pin': {'n': 4}}, timeout=900, tiers=('thorough',)), 10, seed=41, s0=[0, 1, 2, 3, 4], s1=[0, 1, 2, 3, 4],
                  s2=[0, 1, 2, 3, 4])
    obs += split(Ob('h_gate', {}, timeout=900, path_timeout=300, twins=['plain_kind_listed_first']), na=[1, 2])
    obs += split(Ob('h_gate', {}, timeout=900, path_timeout=300, tiers=('thorough',)), na=[0])
    obs += split(Ob('h_gate', {'two_ns': True}, timeout=900, path_timeout=300), na=[1])
    obs += split(Ob('h_gate', {'two_ns': True}, timeout=900, path_timeout=300, tiers=('thorough',)), na=[0, 2])
    for (k0, k1, o1) in ((0, 3, True), (6, 4, False), (0, 5, True), (1, 2, True), (3, 0, False), (4, 6, True)):
        obs.append(Ob('h_index_rules', {'n': 2, 'errors': 'ignored', 'pin': {'k0': k0, 'k1': k1, 'o0': False, 'm0': True, 'o1': o1, 'del0': False}},
                      tiers=('quick',), timeout=900))
    obs.append(Ob('h_index_rules', {'n': 2, 'errors': 'ignored'}, tiers=('quick', 'thorough'), timeout=300, twins=['error_removed'], main=False))
    # thorough: fixed-seed samples of the fully pinned cells (the full product -- 7x7x16 cells per error mode at > 2 CPU-minutes
    # each -- is out of reach; the evidence lists the cells that were run)
    B = [False, True]
    for i, mode in enumerate(('ignored', 'temporary', 'permanent')):
        obs += sample(Ob('h_index_rules', {'n': 2, 'errors': mode}, timeout=900, tiers=('thorough',)), 16, seed=42 + i,
                      k0=list(range(7)), k1=list(range(7)), o0=B, m0=B, o1=B, del0=B)
    # (three objects per cell do not exhaust: > 1600 paths after 20 CPU-minutes for one fully pinned cell -- outside the claim)
    return obs
