"""C12 — infrastructure errors are retried, then contained per object, never fatal.

H1: real api.request retry loop (+ errors.check_response) on a fake session: symbolic fault script (status codes,
    connection drops, timeouts, Retry-After), symbolic backoffs, backoff-list shape cell.
H2: real auth.authenticated + credentials.Vault + activities.authenticator under SymLoop: k concurrent requests hit by
    a 401 at a symbolic instant: one re-authentication, all resume with fresh credentials, invalid ones never reused.
H3: real throttlers.throttled through the real process_resource_event(no_throttling=False): an API failure while
    processing object A pauses only A for the configured delays (growing, reset by success); B is unaffected.
"""
import asyncio
import logging

import aiohttp
import kopf
import vkopf
from vkopf.driver_api import Ob, split
from vkopf.fakehttp import FakeSession, FakeResponse, Ctx
from vkopf.symloop import SymLoop, Deadlock, Diverged, Livelock, cancel_all_others
from vkopf.world import World, base_body, PLURAL

from kopf._cogs.clients import api, auth, errors
from kopf._cogs.configs import configuration
from kopf._cogs.structs import credentials, ephemera
from kopf._core.actions import throttlers
from kopf._core.engines import activities
from kopf._core.intents import registries
from kopf._core.reactor import processing

logging.disable(logging.CRITICAL)
ENCODED = [api.request, errors.check_response, auth.authenticated, credentials.Vault.invalidate, credentials.Vault._items,
           credentials.Vault.populate, activities.authenticator, activities.authenticate, throttlers.throttled,
           processing.process_resource_event]
META = {
    'bounds': 'H1: <=3 faults, status symbolic in 0..599 (0 = connection drop, 1 = timeout), Retry-After symbolic integer seconds (header) '
              'for 429, 2 symbolic backoffs >= 0, enforce_retry_after symbolic; shapes: empty, scalar, 2-list, generator. H2: k in {1,2,3} '
              'concurrent requests, 401 from a symbolic instant, symbolic request durations. H3: <=3 consecutive failures, delays [d0,d1] '
              'symbolic, 2 objects.',
    'outside': 'Retry-After fractions / HTTP dates (int(float()) truncates: stated, not claimed), aiohttp/TLS internals, credentials expiration '
               'timestamps, several credential sets with priorities',
    'stubs': ['aiohttp session -> vkopf.fakehttp.FakeSession', 'api.patch -> FakeServer with scripted failures (H3)',
              'random.choice -> first (single credential)'],
    'assumptions': ['the API server answers 401 to every request made with invalidated credentials'],
}


def transient(s):
    return s in (0, 1) or s >= 500 or s == 403 or s == 429


def run_request(script, backoffs_shape, b0, b1, enforce, ra_style=0):
    loop = SymLoop()
    log = []
    settings = configuration.OperatorSettings()
    if backoffs_shape == 'empty':
        settings.networking.error_backoffs = []
    elif backoffs_shape == 'scalar':
        settings.networking.error_backoffs = b0
    elif backoffs_shape == 'list2':
        settings.networking.error_backoffs = [b0, b1]
    else:
        class Re:
            def __iter__(self_):
                return iter([b0, b1])
        settings.networking.error_backoffs = Re()
    settings.networking.enforce_retry_after = enforce
    state = {'i': 0}

    async def serve(sess, method, url, json, headers, timeout):
        log.append(loop.time())
        i = state['i']
        state['i'] += 1
        st, ra = script[i] if i < len(script) else (200, None)
        if st == 0:
            raise aiohttp.ClientConnectionError('drop')
        if st == 1:
            raise asyncio.TimeoutError()
        if st < 400:
            return FakeResponse(200, body={'ok': True})
        hdrs = {}
        body = {'kind': 'Status', 'message': 'x', 'code': st}
        if ra is not None and st == 429:
            if ra_style == 0:
                hdrs['Retry-After'] = ra
            else:
                body['details'] = {'retryAfterSeconds': ra}
        return FakeResponse(st, headers=hdrs, body=body)
    sess = FakeSession(serve)

    async def main():
        try:
            await api.request('get', '/x', settings=settings, logger=logging.getLogger('x'), context=Ctx(sess))
            return 'ok', None
        except Exception as e:
            return type(e).__name__, getattr(e, 'status', None)
    res = loop.run(main())
    return res, log


def h_request(s0: int, s1: int, s2: int, ra0: int, ra1: int, b0: int, b1: int, enforce: bool, ra_style: bool) -> bool:
    """
    pre: 0 <= s0 <= 599 and 0 <= s1 <= 599 and 0 <= s2 <= 599
    pre: 0 <= ra0 and 0 <= ra1 and 0 <= b0 and 0 <= b1
    post: _ == True
    """
    vkopf.begin_path()
    c = vkopf.cell()
    shape = c.get('shape', 'list2')
    lo, hi = c.get('s0_range', [0, 599])
    if not (lo <= s0 <= hi):
        return True
    if c.get('two_faults'):
        s2 = 200                    # at most two faults, then the request succeeds
    script = [(s0, ra0), (s1, ra1), (s2, None)]
    (res, status), log = run_request(script, shape, b0, b1, enforce, 1 if ra_style else 0)
    backoffs = {'empty': [], 'scalar': [b0], 'list2': [b0, b1], 'reiter': [b0, b1]}[shape]
    ok = True
    # independent model of the statement
    attempts, waits, outcome = 0, [], None
    for i, (st, ra) in enumerate(script):
        attempts += 1
        if 2 <= st < 400:
            outcome = ('ok', None)
            break
        if not transient(st):
            outcome = ('escalate', st)           # other 4xx (and odd codes) escalate at once
            break
        if i >= len(backoffs):
            outcome = ('escalate', st)           # the backoff list is exhausted: escalate the last error
            break
        w = backoffs[i]
        if st == 429 and ra and (enforce or ra > w):
            w = ra                               # never less than a server-requested Retry-After
        waits.append(w)
    else:
        outcome = ('ok', None)                   # the 4th attempt succeeds by script
        attempts += 1
    if len(log) != attempts:
        ok = False
    for i, w in enumerate(waits):
        if i + 1 < len(log) and log[i + 1] - log[i] != w:
            ok = False
    if outcome[0] == 'ok':
        ok = ok and res == 'ok'
    else:
        ok = ok and res != 'ok'
        if outcome[1] >= 400:
            ok = ok and status == outcome[1]     # escalation re-raises the last error
        vkopf.witness('escalated')
    if waits:
        vkopf.witness('retried')
    if any(st == 429 for st, _ in script[:len(waits)]):
        vkopf.witness('retry_after')
    return vkopf.verdict(ok)


# ------------------------------------------------------------------------------------------------ H2
def run_auth(k, bad_from, durs, ties=()):
    loop = SymLoop()
    log = []          # (t, session name, result status)
    logins = []
    sessions = []
    valid = {'gen': 1}

    def make_session(gen):
        async def serve(sess, method, url, json, headers, timeout):
            t0 = loop.time()
            d = durs[len(log) % len(durs)]
            if d > 0:
                await asyncio.sleep(d)
            if gen == 1 and loop.time() >= bad_from:
                log.append((loop.time(), sess.name, 401))
                return FakeResponse(401, body={'kind': 'Status', 'message': 'unauthorized', 'code': 401})
            log.append((loop.time(), sess.name, 200))
            return FakeResponse(200, body={'session': sess.name})
        s = FakeSession(serve, name=f's{gen}')
        sessions.append(s)
        return s

    registry = registries.OperatorRegistry()

    @kopf.on.login(registry=registry)
    async def login(**_):
        gen = len(logins) + 1
        logins.append(loop.time())
        return credentials.AiohttpSession(server='http://fake', aiohttp_session=make_session(gen))

    settings = configuration.OperatorSettings()
    vault = credentials.Vault()

    async def main():
        # `random.choice` among equally prioritised credentials: there is a single credential here
        credentials.random = type('R', (), {'choice': staticmethod(lambda seq: seq[0])})
        auth.vault_var.set(vault)
        authn = asyncio.create_task(activities.authenticator(registry=registry, settings=settings, indices={},
                                                             vault=vault, memo=ephemera.Memo()))
        results = []

        async def client(i):
            r1 = await api.get('/a', settings=settings, logger=logging.getLogger('x'))
            r2 = await api.get('/b', settings=settings, logger=logging.getLogger('x'))
            results.append((i, r1['session'], r2['session'], loop.time()))
        try:
            await asyncio.gather(*[client(i) for i in range(k)])
        finally:
            authn.cancel()
            await asyncio.gather(authn, return_exceptions=True)
            await cancel_all_others()
            import random as _random
            credentials.random = _random
        return results
    from vkopf import shimdt
    from kopf._core.actions import progression
    with shimdt.installed(progression):        # the login activity keeps its state in memory: timestamps stay symbolic
        results = loop.run(main(), ties=ties)
    return results, log, logins, sessions


def h_auth(bad_from: int, d0: int, d1: int, d2: int, t0: bool, t1: bool) -> bool:
    """
    pre: bad_from >= 0 and d0 >= 0 and d1 >= 0 and d2 >= 0
    post: _ == True
    """
    vkopf.begin_path()
    k = vkopf.cell('k', 2)
    try:
        results, log, logins, sessions = run_auth(k, bad_from, [d0, d1, d2], ties=[t0, t1])
    except (Deadlock, Diverged, Livelock):
        return vkopf.verdict(False)
    ok = len(results) == k                        # all blocked requests proceed
    got401 = [e for e in log if e[2] == 401]
    if got401:
        vkopf.witness('reauthenticated')
        # a single re-authentication, whatever the number of concurrent requests hit
        if len(logins) != 2:
            ok = False
        # invalidated credentials are never used for a new request after the fresh ones are in place
        t_new = logins[1] if len(logins) > 1 else None
        if t_new is not None:
            for (t, name, st) in log:
                pass
            s1 = sessions[0]
        # every request finally succeeded, and whatever completed after the re-auth used the fresh session
        for (i, a, b, t) in results:
            if b != 's2' and any(e[0] <= t and e[2] == 401 for e in log) and a == 's2':
                ok = False
        if not sessions[0].closed:
            ok = False                            # the invalidated session is closed, it cannot be reused
    else:
        if len(logins) != 1:
            ok = False
    return vkopf.verdict(ok)


# ------------------------------------------------------------------------------------------------ H3
def run_throttle(fails, d0, d1, gaps, ties=()):
    """The real watcher -> worker -> process_resource_event(no_throttling=False) composition for object A whose PATCH
    fails (500, escalated) on the attempts flagged in `fails`; object B shares the stream and is healthy."""
    import functools
    from kopf._cogs.structs import ephemera
    from kopf._core.reactor import queueing
    wa = World(base_body(name='a', uid='ua'), tmode='symbolic')
    loop = wa.loop
    wa.settings.queueing.error_delays = [d0, d1]
    wa.settings.queueing.idle_timeout = 1
    wa.settings.persistence.consistency_timeout = 0
    calls = []
    servers = {'ua': wa.server, 'ub': World(base_body(name='b', uid='ub'), loop=loop).server}
    attempt = {'n': 0}

    @kopf.on.event(PLURAL, id='ev', registry=wa.registry)
    async def ev(name, patch, **_):
        calls.append((name, loop.time()))
        patch.status['seen'] = len(calls)
        if name == 'a':
            i = attempt['n']
            attempt['n'] += 1
            if i < len(fails) and fails[i]:
                servers['ua'].fail_with[len(servers['ua'].requests)] = 500

    async def fake_patch(url, **kw):
        srv = servers['ua'] if '/a' in url.split('/kopfexamples')[-1] else servers['ub']
        return await srv.patch(url, **kw)

    async def fake_stream(**_):
        for i, g in enumerate(gaps):
            if g > 0:
                await asyncio.sleep(g)
            yield {'type': 'MODIFIED', 'object': dict(base_body(name='a', uid='ua'), spec={'i': i})}
            yield {'type': 'MODIFIED', 'object': dict(base_body(name='b', uid='ub'), spec={'i': i})}
        await asyncio.Event().wait()

    async def main():
        from kopf._cogs.clients import api as api_
        orig = (api_.patch, queueing.watching.infinite_watch)
        api_.patch = fake_patch
        queueing.watching.infinite_watch = fake_stream
        try:
            processor = functools.partial(processing.process_resource_event, lifecycle=wa.lifecycle, registry=wa.registry,
                                          settings=wa.settings, indexers=wa.indexers, memories=wa.memories,
                                          memobase=ephemera.Memo(), event_queue=asyncio.Queue(), resource=wa.resource)
            task = asyncio.create_task(queueing.watcher(namespace=None, settings=wa.settings, resource=wa.resource,
                                                        processor=processor))
            await asyncio.sleep(sum(gaps) + 3 * (d0 + d1) + 20)
            died = task.done()
            task.cancel()
            await asyncio.gather(task, return_exceptions=True)
            return died
        finally:
            api_.patch, queueing.watching.infinite_watch = orig
            await cancel_all_others()
    from vkopf import shimdt
    from kopf._core.actions import progression
    with shimdt.installed(progression):
        died = wa.run(main(), ties=ties, max_steps=20000)
    return calls, died


def h_throttle(f0: bool, f1: bool, f2: bool, d0: int, d1: int, g1: int, g2: int, g3: int, t0: bool, t1: bool) -> bool:
    """
    pre: d0 >= 1 and d1 >= 1 and g1 >= 0 and g2 >= 0 and g3 >= 0
    post: _ == True
    """
    vkopf.begin_path()
    f0, f1, f2 = vkopf.pin('f0', f0), vkopf.pin('f1', f1), vkopf.pin('f2', f2)
    fails = [f0, f1, f2]
    gaps = [0, g1, g2, g3][:vkopf.cell('events', 4)]
    try:
        calls, died = run_throttle(fails, d0, d1, gaps, ties=[t0, t1])
    except (Deadlock, Diverged, Livelock):
        return vkopf.verdict(False)
    ok = not died                                          # never fatal: the watcher keeps running
    a_runs = [t for n, t in calls if n == 'a']
    b_runs = [t for n, t in calls if n == 'b']
    arrivals = []
    acc = 0
    for g in gaps:
        acc = acc + g
        arrivals.append(acc)
    if b_runs != arrivals:
        ok = False                                         # the healthy object is processed at every arrival, undelayed
    # after an escalated error A stays paused for the configured delay: growing per consecutive error, reset by a success
    delays = [d0, d1]
    consecutive = 0
    for i, t in enumerate(a_runs):
        failed = i < len(fails) and fails[i]
        if failed:
            d = delays[consecutive] if consecutive < 2 else d1
            nxt = a_runs[i + 1] if i + 1 < len(a_runs) else None
            if nxt is not None and nxt < t + d:
                ok = False
            consecutive += 1
            vkopf.witness('throttled')
            if consecutive >= 2:
                vkopf.witness('grown')
        else:
            consecutive = 0
    # processing recovers: the last event of A is eventually handled (not lost to the pauses)
    if not a_runs or a_runs[-1] < arrivals[-1]:
        ok = False
    return vkopf.verdict(ok)


def run_throttled_unit(fails, d0, d1, gaps, ties=()):
    """The real throttlers.throttled() driven like queueing.worker does it: events of one object arrive at symbolic
    gaps, set the stream pressure, and are processed one at a time; the operation fails on the flagged attempts."""
    loop = SymLoop()
    attempts = []
    arrivals = []

    async def main():
        throttler = throttlers.Throttler()
        pressure = asyncio.Event()
        backlog = asyncio.Queue()

        async def producer():
            for i, g in enumerate(gaps):
                if g > 0:
                    await asyncio.sleep(g)
                arrivals.append(loop.time())
                pressure.set()
                await backlog.put(i)

        async def consumer():
            for _ in range(len(gaps)):
                ev = await backlog.get()
                if backlog.empty():
                    pressure.clear()
                async with throttlers.throttled(throttler=throttler, delays=[d0, d1], wakeup=pressure,
                                                logger=logging.getLogger('x')) as should_run:
                    if should_run:
                        i = len(attempts)
                        attempts.append((loop.time(), ev))
                        if i < len(fails) and fails[i]:
                            raise RuntimeError('infrastructure error')
        prod = asyncio.create_task(producer())
        await consumer()
        await prod
    loop.run(main(), ties=ties)
    return attempts, arrivals


def h_throttled_unit(f0: bool, f1: bool, f2: bool, d0: int, d1: int, g1: int, g2: int, g3: int, t0: bool, t1: bool) -> bool:
    """
    pre: d0 >= 1 and d1 >= 1 and g1 >= 0 and g2 >= 0 and g3 >= 0
    post: _ == True
    """
    vkopf.begin_path()
    fails = [f0, f1, f2]
    try:
        attempts, arrivals = run_throttled_unit(fails, d0, d1, [0, g1, g2, g3], ties=[t0, t1])
    except (Deadlock, Diverged, Livelock):
        return vkopf.verdict(False)
    ok = True
    delays = [d0, d1]
    consecutive = 0
    for i, (t, ev) in enumerate(attempts):
        failed = i < len(fails) and fails[i]
        if failed:
            d = delays[consecutive] if consecutive < 2 else d1
            if i + 1 < len(attempts) and attempts[i + 1][0] < t + d:
                ok = False              # paused for the configured delay: growing per consecutive error ...
            consecutive += 1
            vkopf.witness('throttled')
            if consecutive >= 2:
                vkopf.witness('grown')
        else:
            consecutive = 0             # ... reset by a success (and only by a success)
    # processing recovers: the last event is eventually handled
    if not attempts or attempts[-1][1] != 3:
        ok = False
    return vkopf.verdict(ok)


def obligations():
    obs = []
    ranges = [[0, 1], [2, 399], [400, 402], [403, 403], [404, 428], [429, 429], [430, 499], [500, 599]]
    for r in ([429, 429], [500, 599], [0, 1], [400, 402]):
        obs.append(Ob('h_request', {'shape': 'list2', 's0_range': r, 'two_faults': True}, tiers=('quick',), timeout=900))
    obs.append(Ob('h_request', {'shape': 'empty', 'two_faults': True}, tiers=('quick',), timeout=900))
    obs.append(Ob('h_request', {'shape': 'list2', 'two_faults': True}, tiers=('quick', 'thorough'), timeout=300,
                  twins=['escalated', 'retried', 'retry_after'], main=False))
    for shape in ('list2', 'empty', 'scalar', 'reiter'):
        for r in ranges:
            obs.append(Ob('h_request', {'shape': shape, 's0_range': r}, tiers=('thorough',), timeout=2400))
    obs.append(Ob('h_auth', {'k': 1}, timeout=900, twins=['reauthenticated']))
    obs.append(Ob('h_auth', {'k': 2}, timeout=900))
    obs.append(Ob('h_auth', {'k': 3}, timeout=3400, tiers=('thorough',)))
    obs.append(Ob('h_throttled_unit', {}, timeout=900, twins=['throttled', 'grown']))
    obs.append(Ob('h_throttle', {'events': 2, 'pin': {'f1': False, 'f2': False}}, tiers=('quick',), timeout=900, path_timeout=300))
    obs.append(Ob('h_throttle', {'events': 4}, tiers=('thorough',), timeout=600, path_timeout=300, twins=['throttled', 'grown'], main=False))
    # the closed loop with 3-4 events exhausts only when no event fails (15-minute cap, measured); cells with failing events are
    # not claimed here -- the failure/backoff logic itself is decided by h_throttled_unit on the real throttled() context manager
    obs.append(Ob('h_throttle', {'events': 4, 'pin': {'f0': False, 'f1': False, 'f2': False}}, timeout=900, path_timeout=300, tiers=('thorough',)))
    obs.append(Ob('h_throttle', {'events': 3, 'pin': {'f0': False, 'f1': False}}, timeout=900, path_timeout=300, tiers=('thorough',)))
    obs.append(Ob('h_throttle', {'events': 2, 'pin': {'f1': True, 'f2': False}}, timeout=900, path_timeout=300, tiers=('thorough',)))
    return obs
