"""C19 — watch coverage and continuity under reconnects, 410s, pauses and cluster changes.

H1 stream continuity: real watching.infinite_watch / continuous_watch / watch_objs / streaming_block (+ fetching.list_objs)
    over a fake API (api.get / api.stream rebound) backed by an ordered change log; symbolic change instants, symbolic
    fault script per connection, symbolic pause/resume instants.
H2 orchestration: real orchestration.adjust_tasks (terminate_redundancies / spawn_missing_watchers / spawn_missing_peerings)
    with queueing.watcher and peering.keepalive rebound to recording coroutines; symbolic sequence of insight revisions.
"""
import asyncio
import copy
import logging

import aiohttp
import vkopf
from vkopf.driver_api import Ob, split, sample
from vkopf.symloop import SymLoop, Deadlock, Diverged, Livelock, cancel_all_others
from vkopf.world import make_resource

from kopf._cogs.aiokits import aiotoggles
from kopf._cogs.clients import api, errors, fetching, watching
from kopf._cogs.configs import configuration
from kopf._cogs.structs import references
from kopf._core.engines import peering
from kopf._core.reactor import orchestration, queueing

logging.disable(logging.CRITICAL)
ENCODED = [watching.infinite_watch, watching.continuous_watch, watching.watch_objs, watching.streaming_block,
           fetching.list_objs, orchestration.adjust_tasks, orchestration.terminate_redundancies,
           orchestration.spawn_missing_watchers, orchestration.spawn_missing_peerings, orchestration.orchestrator]
META = {
    'bounds': 'h_adjust_peering: namespaced peering over two namespaces, a symbolic conflict toggle per namespace, a symbolic second revision of the served namespaces. H1: one resource/namespace, one object, <=3 changes at symbolic gaps, <=3 connections with a symbolic fault each (EOF, '
              'connection error, timeout, ERROR 410, 429 on connect, unknown ERROR, BOOKMARK then EOF, an event without any version then EOF) after a symbolic number of '
              'delivered events, optional compaction (410 for an old version), one pause/resume window at symbolic instants; gaps and pause instants <= 30 s; '
              'the inactivity timeout is concrete per cell: 10000 s (never fires) or 2 s with gaps <= 5 s (fires between changes). '
              'H2: 2 resources x 2 namespaces (+cluster-wide), <=3 insight revisions with symbolic membership, peering on/off. '
              'H4 (orchestrator): 3 racing revisions at symbolic instants, watchers needing a symbolic time <= 12 s to stop.',
    'outside': 'aiohttp chunking/iter_jsonlines and the real HTTP stack (api.stream is rebound), more than one object per kind, '
               'discovery of resources/namespaces by observation.py',
    'stubs': ['api.get/api.stream -> fake API over an ordered change log', 'queueing.watcher, peering.keepalive -> recording coroutines (H2)'],
    'assumptions': ['the API server delivers the changes after resourceVersion v in order, or answers 410 if v is compacted'],
}
RESOURCE = make_resource()
FAULTS = ['eof', 'connerr', 'timeout', 'gone410', 'too_many', 'unknown_error', 'bookmark_eof', 'none', 'versionless_eof']


class FakeApi:
    def __init__(self, loop, gaps, faults, after, compact):
        self.loop = loop
        self.rv = 10
        self.log = []                    # [(rv, obj)]
        self.obj = {'metadata': {'name': 'n', 'namespace': 'ns', 'uid': 'u1', 'resourceVersion': '10'}, 'spec': {'x': 0}}
        self.changed = asyncio.Condition()
        self.requests = []               # ('list', t) | ('watch', t, since)
        self.trace = []                  # requests and consumer yields in causal order
        self.faults, self.after = list(faults), list(after)
        self.conn = 0
        self.compact = compact           # versions <= this are compacted away (410)
        self.gaps = gaps

    async def world(self):
        for g in self.gaps:
            if g > 0:
                await asyncio.sleep(g)
            async with self.changed:
                self.rv += 1
                self.obj = copy.deepcopy(self.obj)
                self.obj['spec']['x'] += 1
                self.obj['metadata']['resourceVersion'] = str(self.rv)
                self.log.append((self.rv, copy.deepcopy(self.obj)))
                self.changed.notify_all()

    async def get(self, url, **kw):
        self.requests.append(('list', self.loop.time()))
        self.trace.append(('list', None))
        return {'kind': 'KopfExampleList', 'apiVersion': 'kopf.dev/v1', 'metadata': {'resourceVersion': str(self.rv)},
                'items': [copy.deepcopy(self.obj)]}

    async def stream(self, url, *, stopper=None, **kw):
        since = int(url.split('resourceVersion=')[1].split('&')[0]) if 'resourceVersion=' in url else None
        self.requests.append(('watch', self.loop.time(), since))
        self.trace.append(('watch', since))
        i = self.conn
        self.conn += 1
        fault = self.faults[i] if i < len(self.faults) else None
        limit = self.after[i] if i < len(self.after) else None
        if fault is not None and FAULTS[fault] == 'too_many' and limit == 0:
            raise errors.APITooManyRequestsError(None, status=429, headers={})
        if since is not None and since < self.compact:
            yield {'type': 'ERROR', 'object': {'kind': 'Status', 'code': 410, 'message': 'too old'}}
            return
        sent = 0
        cursor = since if since is not None else self.rv
        while True:
            if stopper is not None and stopper.done():
                return
            pending = [(rv, o) for rv, o in self.log if rv > cursor]
            if fault is not None and sent >= limit:
                name = FAULTS[fault]
                if name == 'eof' or name == 'too_many':
                    return
                if name == 'connerr':
                    raise aiohttp.ClientConnectionError('reset')
                if name == 'timeout':
                    raise asyncio.TimeoutError()
                if name == 'gone410':
                    yield {'type': 'ERROR', 'object': {'kind': 'Status', 'code': 410, 'message': 'too old'}}
                    return
                if name == 'unknown_error':
                    yield {'type': 'ERROR', 'object': {'kind': 'Status', 'code': 500, 'message': 'boom'}}
                    return
                if name == 'bookmark_eof':
                    yield {'type': 'BOOKMARK', 'object': {'metadata': {'resourceVersion': str(cursor)}}}
                    return
                if name == 'versionless_eof':
                    # an event that carries no version at all (nothing to learn from it), then the connection ends
                    yield {'type': 'BOOKMARK', 'object': {'kind': 'KopfExample', 'metadata': {}}}
                    return
            if pending:
                rv, o = pending[0]
                cursor = rv
                sent += 1
                yield {'type': 'MODIFIED', 'object': copy.deepcopy(o)}
                continue
            # wait for a change or for the stopper (pause)
            waiter = asyncio.ensure_future(self._wait_change())
            waits = {waiter}
            if stopper is not None:
                waits.add(stopper)
            await asyncio.wait(waits, return_when=asyncio.FIRST_COMPLETED)
            if not waiter.done():
                waiter.cancel()

    async def _wait_change(self):
        n = len(self.log)
        async with self.changed:
            await self.changed.wait_for(lambda: len(self.log) > n)


def run_watch(gaps, faults, after, compact_all, pause_at, pause_len, inactivity=10000, ties=()):
    loop = SymLoop()
    seen = []          # (t, kind, rv) as yielded to the consumer
    info = {}

    async def main():
        fake = FakeApi(loop, gaps, faults, after, 10 ** 6 if compact_all else 0)
        paused = aiotoggles.ToggleSet(any)
        toggle = await paused.make_toggle(False, name='p')
        settings = configuration.OperatorSettings()
        settings.watching.reconnect_backoff = 1
        settings.watching.inactivity_timeout = inactivity
        orig = (api.get, api.stream)
        api.get, api.stream = fake.get, fake.stream

        async def consume():
            async for ev in watching.infinite_watch(settings=settings, resource=RESOURCE, namespace='ns', operator_paused=paused):
                if ev is watching.Bookmark.LISTED:
                    seen.append((loop.time(), 'LISTED', None))
                    fake.trace.append(('yield', 'LISTED', None))
                elif ev['object'].get('metadata', {}).get('resourceVersion') is None:
                    seen.append((loop.time(), 'NOVERSION', None))
                    fake.trace.append(('yield', 'NOVERSION', None))
                else:
                    seen.append((loop.time(), ev['type'], int(ev['object']['metadata']['resourceVersion'])))
                    fake.trace.append(('yield', ev['type'], int(ev['object']['metadata']['resourceVersion'])))
        try:
            world = asyncio.create_task(fake.world())
            consumer = asyncio.create_task(consume())
            windows = []
            if pause_at is not None:
                await asyncio.sleep(pause_at)
                await toggle.turn_to(True)
                t_on = loop.time()
                await asyncio.sleep(pause_len)
                await toggle.turn_to(False)
                windows.append((t_on, loop.time()))
            await asyncio.sleep(sum(gaps) + 10 + 3 * 1 + inactivity)
            await world
            await asyncio.sleep(5)
            info['error'] = None
            if consumer.done():
                info['error'] = type(consumer.exception()).__name__ if consumer.exception() else 'returned'
                info['exc'] = consumer.exception()
            consumer.cancel()
            await asyncio.gather(consumer, return_exceptions=True)
            info['final_rv'] = fake.rv
            info['requests'] = list(fake.requests)
            info['trace'] = list(fake.trace)
            info['windows'] = windows
            info['conns'] = fake.conn
        finally:
            api.get, api.stream = orig
            await cancel_all_others()
    loop.run(main(), ties=ties, max_steps=20000)
    return seen, info


def h_watch(g0: int, g1: int, g2: int, f0: int, f1: int, f2: int, a0: int, a1: int, a2: int, compact_all: bool,
            has_pause: bool, pause_at: int, pause_len: int, inactivity: int) -> bool:
    """
    pre: g0 >= 0 and g1 >= 0 and g2 >= 0 and inactivity >= 1
    pre: 0 <= f0 <= 8 and 0 <= f1 <= 8 and 0 <= f2 <= 8 and 0 <= a0 <= 2 and 0 <= a1 <= 2 and 0 <= a2 <= 2
    pre: pause_at >= 0 and pause_len >= 1
    post: _ == True
    """
    vkopf.begin_path()
    c = vkopf.cell()
    f0, f1, a0, a1 = vkopf.pin('f0', f0), vkopf.pin('f1', f1), vkopf.pin('a0', a0), vkopf.pin('a1', a1)
    gaps = [g0, g1, g2][:c.get('changes', 2)]
    if c.get('inactivity') is not None:
        inactivity = c['inactivity']        # (cells without the inactivity timer as a symbolic dimension)
        if any(g > c.get('gap_max', 30) for g in gaps):
            return True                     # every further inactivity period inside a gap would be another case split
    elif inactivity < c.get('inactivity_min', 8) or any(g > 2 * inactivity for g in gaps):
        return True                         # at most two inactivity periods per gap and in the quiescence tail
    nf = c.get('faults', 2)
    faults = [None if f == 7 else f for f in [f0, f1, f2][:nf]]
    if not c.get('pause', False):
        has_pause = False
    elif has_pause and (pause_at > c.get('gap_max', 30) or pause_len > c.get('gap_max', 30)):
        return True
    if compact_all and not c.get('compaction', False):
        compact_all = False
    try:
        seen, info = run_watch(gaps, faults, [a0, a1, a2][:nf], compact_all,
                               pause_at if has_pause else None, pause_len, inactivity=inactivity)
    except (Deadlock, Diverged, Livelock):
        return vkopf.verdict(False)
    ok = True
    unknown = any(f is not None and FAULTS[f] == 'unknown_error' for f in faults[:info['conns']])
    # an unknown error event is never silently skipped
    if info['error'] is not None:
        if info['error'] != 'WatchingError' or not unknown:
            ok = False
        vkopf.witness('raised')
        return vkopf.verdict(ok)
    # every watch request resumes from the latest version seen (listed or yielded), never from one that skips changes
    known = None
    reqs = info['requests']
    nlists = nwatches = 0
    for kind, a, *rest in [(e[0], e[1], *e[2:]) for e in info['trace']]:
        if kind == 'list':
            nlists += 1
            if nlists > 1:
                vkopf.witness('relisted')
        elif kind == 'watch':
            nwatches += 1
            if nwatches > 1:
                vkopf.witness('resumed')         # a watch request after the first one: continuity is at stake
            if a != known:
                ok = False
        else:
            typ, rv = a, rest[0]
            if typ is None:
                known = rv                       # a listed object
            elif typ == 'MODIFIED':
                if known is None or rv != known + 1:
                    ok = False                   # a change was skipped or repeated
                known = rv
            elif typ == 'BOOKMARK':
                known = rv
    # every change reaches processing: after quiescence the consumer has seen the final version
    if known != info['final_rv']:
        ok = False
    # while paused nothing is listed or watched; watching restarts with a fresh listing on resume
    for (t_on, t_off) in info['windows']:
        vkopf.witness('paused')
        inside = [r for r in reqs if t_on < r[1] < t_off]
        if inside:
            ok = False
        after = [r for r in reqs if r[1] >= t_off]
        if after and after[0][0] != 'list':
            ok = False
    return vkopf.verdict(ok)


# ---------------------------------------------------------------------------------------------- H2
R1 = references.Resource('kopf.dev', 'v1', 'kopfexamples', namespaced=True)
R2 = references.Resource('kopf.dev', 'v1', 'clusterthings', namespaced=False)
NSS = ['ns1', 'ns2']


def h_adjust(n: int, r1a: bool, r2a: bool, n1a: bool, n2a: bool, r1b: bool, r2b: bool, n1b: bool, n2b: bool,
             r1c: bool, r2c: bool, n1c: bool, n2c: bool, clusterwide: bool) -> bool:
    """
    pre: 1 <= n <= 3
    post: _ == True
    """
    vkopf.begin_path()
    n = vkopf.pin('n', n)
    revisions = [(r1a, r2a, n1a, n2a), (r1b, r2b, n1b, n2b), (r1c, r2c, n1c, n2c)][:n]
    # known finding F10: a cluster-scoped watcher lingers when the set of served namespaces becomes empty
    f10 = (not clusterwide) and any(not (n1 or n2) for (_, _, n1, n2) in revisions)
    if vkopf.cell('exclude_known', True) and f10:
        return True
    if vkopf.cell('only_f10', False) and not f10:
        return True
    loop = SymLoop()
    started, cancelled = [], []

    async def dummy_processor(**kw):
        return None

    async def fake_watcher(*, resource, namespace, **kw):
        key = (resource.plural, namespace)
        started.append(key)
        try:
            await asyncio.Event().wait()
        finally:
            cancelled.append(key)

    async def main():
        orig = queueing.watcher
        queueing.watcher = fake_watcher
        try:
            settings = configuration.OperatorSettings()
            settings.peering.standalone = True
            insights = references.Insights()
            paused = aiotoggles.ToggleSet(any)
            ensemble = orchestration.Ensemble(operator_paused=paused, operator_indexed=aiotoggles.ToggleSet(all),
                                              peering_missing=await paused.make_toggle(name='pm'))
            snapshots = []
            for (r1, r2, n1, n2) in revisions:
                insights.watched_resources.clear()
                insights.namespaces.clear()
                if r1:
                    insights.watched_resources.add(R1)
                if r2:
                    insights.watched_resources.add(R2)
                if clusterwide:
                    insights.namespaces.add(None)
                else:
                    if n1:
                        insights.namespaces.add('ns1')
                    if n2:
                        insights.namespaces.add('ns2')
                await orchestration.adjust_tasks(processor=dummy_processor, insights=insights, settings=settings,
                                                 identity=peering.Identity('me'), ensemble=ensemble)
                await asyncio.sleep(0)
                live = {(k.resource.plural, k.namespace) for k, t in ensemble.watcher_tasks.items() if not t.done()}
                want = set()
                nss = [None] if clusterwide else [x for x, on in (('ns1', n1), ('ns2', n2)) if on]
                for res, on in ((R1, r1), (R2, r2)):
                    if on:
                        for ns in nss:
                            want.add((res.plural, ns if res.namespaced else None))
                running = sorted(k for k in set(started) for _ in range(started.count(k) - cancelled.count(k)))
                snapshots.append((live, want, running, len(ensemble.watcher_tasks)))
            await cancel_all_others()
            return snapshots
        finally:
            queueing.watcher = orig
    snaps = loop.run(main())
    ok = True
    for live, want, running, ntasks in snaps:
        # exactly one watch per served (resource, namespace) pair and none for anything else
        if live != want or ntasks != len(want):
            ok = False
        if sorted(set(running)) != sorted(want) or len(running) != len(set(running)):
            ok = False
    if len(snaps) > 1 and snaps[-1][1] != snaps[0][1]:
        vkopf.witness('changed')
    return vkopf.verdict(ok)


def h_adjust_peering(n1b: bool, n2b: bool, conflict_ns1: bool, conflict_ns2: bool) -> bool:
    """
    post: _ == True
    """
    # Namespaced peering: every served namespace has its own "conflicts found" pause toggle. When a namespace stops being served
    # its watchers, its peering tasks AND its pause toggle go: a namespace that is gone cannot keep the operator paused.
    vkopf.begin_path()
    loop = SymLoop()
    PEERING = references.Resource('kopf.dev', 'v1', 'kopfpeerings', namespaced=True, kind='KopfPeering', verbs=frozenset(['list', 'watch', 'patch']))

    async def dummy_processor(**kw):
        return None

    async def fake_forever(**kw):
        await asyncio.Event().wait()

    async def main():
        orig = (queueing.watcher, peering.keepalive)
        queueing.watcher = fake_forever
        peering.keepalive = fake_forever
        try:
            settings = configuration.OperatorSettings()
            settings.peering.name = 'default'
            settings.peering.mandatory = True
            settings.peering.namespaced = True
            settings.peering.clusterwide = False
            insights = references.Insights()
            await insights.backbone.fill(resources=[PEERING])
            paused = aiotoggles.ToggleSet(any)
            ensemble = orchestration.Ensemble(operator_paused=paused, operator_indexed=aiotoggles.ToggleSet(all),
                                              peering_missing=await paused.make_toggle(name='pm'))
            insights.watched_resources.add(R1)
            insights.namespaces.update({'ns1', 'ns2'})
            await orchestration.adjust_tasks(processor=dummy_processor, insights=insights, settings=settings,
                                             identity=peering.Identity('me'), ensemble=ensemble)
            await asyncio.sleep(0)
            # the peering observers have had their say: a conflicting peer in ns1 / ns2 or none
            for key, toggle in ensemble.conflicts_found.items():
                await toggle.turn_to(conflict_ns1 if key.namespace == 'ns1' else conflict_ns2)
            first = paused.is_on()
            insights.namespaces.clear()
            if n1b:
                insights.namespaces.add('ns1')
            if n2b:
                insights.namespaces.add('ns2')
            await orchestration.adjust_tasks(processor=dummy_processor, insights=insights, settings=settings,
                                             identity=peering.Identity('me'), ensemble=ensemble)
            await asyncio.sleep(0)
            left = {k.namespace for k in ensemble.conflicts_found}
            res = (first, paused.is_on(), left, {k.namespace for k in ensemble.peering_tasks}, len(list(paused)))
            await cancel_all_others()
            return res
        finally:
            queueing.watcher, peering.keepalive = orig
    first, paused_now, left, peer_ns, ntoggles = loop.run(main())
    ok = first == (conflict_ns1 or conflict_ns2)
    want_ns = {x for x, on in (('ns1', n1b), ('ns2', n2b)) if on}
    if left != want_ns or peer_ns != want_ns:
        ok = False
    want_paused = (conflict_ns1 and n1b) or (conflict_ns2 and n2b)
    if paused_now != want_paused:
        ok = False
    if ntoggles != 1 + len(want_ns):
        ok = False                      # the "peering CRD is missing" toggle + one per served namespace, nothing stale
    if (conflict_ns1 and not n1b) or (conflict_ns2 and not n2b):
        vkopf.witness('paused_namespace_removed')
    return vkopf.verdict(ok)


def _snapshot(v1, v1pref, v1cat, v2, v2pref, v2cat, other):
    """The cluster's resources of group kopf.dev (+ optionally another group) as a discovery scan would report them."""
    verbs = frozenset(['list', 'watch', 'patch'])
    out = []
    if v1:
        out.append(references.Resource('kopf.dev', 'v1', 'things', kind='Thing', namespaced=True, preferred=v1pref, verbs=verbs,
                                       categories=frozenset(['mycat']) if v1cat else frozenset()))
    if v2:
        out.append(references.Resource('kopf.dev', 'v2', 'things', kind='Thing', namespaced=True, preferred=v2pref, verbs=verbs,
                                       categories=frozenset(['mycat']) if v2cat else frozenset()))
    if other:
        out.append(references.Resource('other.io', 'v1', 'gadgets', kind='Gadget', namespaced=True, preferred=True, verbs=verbs,
                                       categories=frozenset(['mycat'])))
    return out


def h_revise(a1: bool, a1p: bool, a1c: bool, a2: bool, a2p: bool, a2c: bool, other: bool,
             b1: bool, b1p: bool, b1c: bool, b2: bool, b2p: bool, b2c: bool, by_category: bool) -> bool:
    """
    post: _ == True
    """
    vkopf.begin_path()
    import kopf
    from kopf._core.intents import registries
    from kopf._core.reactor import observation
    by_category = vkopf.pin('by_category', by_category)
    registry = registries.OperatorRegistry()

    async def fn(**_):
        pass
    if by_category:
        kopf.on.event(category='mycat', id='h', registry=registry)(fn)
    else:
        kopf.on.event('things', id='h', registry=registry)(fn)
    before = _snapshot(a1, a1p, a1c, a2, a2p, a2c, other)
    after = _snapshot(b1, b1p, b1c, b2, b2p, b2c, other)
    # incremental: the initial full scan, then a re-scan of the group after its CRD was modified
    insights = references.Insights()
    observation.revise_resources(resources=before, insights=insights, registry=registry, group=None)
    observation.revise_resources(resources=[r for r in after if r.group == 'kopf.dev'], insights=insights, registry=registry, group='kopf.dev')
    # reference: what an operator started now (a full scan of the current cluster) would serve
    fresh = references.Insights()
    observation.revise_resources(resources=after, insights=fresh, registry=registry, group=None)

    def key(rs):
        return sorted((r.group, r.version, r.plural, r.preferred, tuple(sorted(r.categories))) for r in rs)
    ok = key(insights.watched_resources) == key(fresh.watched_resources)
    if key(before) != key(after):
        vkopf.witness('crd_modified')
    return vkopf.verdict(ok)


def run_orchestrator(revs, gaps, linger, ties=()):
    """The real orchestration.orchestrator() reacting to insight revisions made by an observer (under the insights'
    condition, as observation.py does); the stand-in watcher takes `linger` seconds to honour its cancellation."""
    loop = SymLoop()
    started, ended = [], []

    async def dummy_processor(**kw):
        return None

    async def fake_watcher(*, resource, namespace, **kw):
        key = (resource.plural, namespace)
        started.append(key)
        try:
            await asyncio.Event().wait()
        except asyncio.CancelledError:
            if linger > 0:
                try:
                    await asyncio.sleep(linger)
                except asyncio.CancelledError:
                    pass
            raise
        finally:
            ended.append(key)

    async def main():
        orig = queueing.watcher
        queueing.watcher = fake_watcher
        try:
            settings = configuration.OperatorSettings()
            settings.peering.standalone = True
            insights = references.Insights()
            paused = aiotoggles.ToggleSet(any)
            task = asyncio.create_task(orchestration.orchestrator(
                processor=dummy_processor, settings=settings, identity=peering.Identity('me'), insights=insights,
                operator_paused=paused))
            await asyncio.sleep(0)
            want = set()
            for (r1, r2, nss), g in zip(revs, gaps):
                if g > 0:
                    await asyncio.sleep(g)
                async with insights.revised:
                    insights.watched_resources.clear()
                    insights.namespaces.clear()
                    if r1:
                        insights.watched_resources.add(R1)
                    if r2:
                        insights.watched_resources.add(R2)
                    for ns in nss:
                        insights.namespaces.add(ns)
                    insights.revised.notify_all()
                want = set()
                for res, on in ((R1, r1), (R2, r2)):
                    if on:
                        for ns in nss:
                            want.add((res.plural, ns if res.namespaced else None))
            await asyncio.sleep(3 * linger + 30)
            live = sorted(k for k in set(started) for _ in range(started.count(k) - ended.count(k)))
            task.cancel()
            await asyncio.gather(task, return_exceptions=True)
            left = sorted(k for k in set(started) for _ in range(started.count(k) - ended.count(k)))
            await cancel_all_others()
            return live, want, left
        finally:
            queueing.watcher = orig
    return loop.run(main(), ties=ties, max_steps=20000)


def h_orchestrator(g1: int, g2: int, linger: int, r2a: bool, r2b: bool, r2c: bool, na: int, nb: int, nc: int, t0: bool, t1: bool) -> bool:
    """
    pre: g1 >= 0 and g2 >= 0 and linger >= 0
    pre: 1 <= na <= 7 and 1 <= nb <= 7 and 1 <= nc <= 7
    post: _ == True
    """
    vkopf.begin_path()
    na, nb, nc = vkopf.pin('na', na), vkopf.pin('nb', nb), vkopf.pin('nc', nc)
    r2a, r2b, r2c = vkopf.pin('r2a', r2a), vkopf.pin('r2b', r2b), vkopf.pin('r2c', r2c)
    if linger > vkopf.cell().get('linger_max', 12):
        return True                    # aiotasks.stop() polls every 10 s: each further period is another case split

    def nsset(m):      # a non-empty subset of {a, b, c} (empty sets: known finding F10)
        return [x for i, x in enumerate(('a', 'b', 'c')) if m & (1 << i)]
    revs = [(True, r2a, nsset(na)), (True, r2b, nsset(nb)), (True, r2c, nsset(nc))]
    try:
        live, want, left = run_orchestrator(revs, [0, g1, g2], linger, ties=[t0, t1])
    except (Deadlock, Diverged, Livelock):
        return vkopf.verdict(False)
    ok = live == sorted(want)          # exactly one watch per served pair, none else -- also when revisions race
    ok = ok and not left               # and everything is stopped when the orchestrator is cancelled
    if linger > g2:
        vkopf.witness('revision_during_adjustment')
    return vkopf.verdict(ok)


def obligations():
    _extra = [Ob('h_adjust_peering', {}, timeout=600, twins=['paused_namespace_removed'])]
    none = 7
    obs = []
    # quick: one fault kind per cell at a pinned position, symbolic change instants (gaps <= 30 s). The inactivity timer is
    # concrete per cell (10000 s = never fires within the horizon; 2 s with gaps <= 5 s = fires between changes): every
    # further period of a periodic timer inside a symbolic gap is another case split, so it cannot stay unbounded
    for (f0, a0, f1, a1) in ((0, 1, none, 0), (1, 0, none, 0), (2, 1, 0, 1), (3, 1, none, 0), (4, 0, none, 0), (5, 1, none, 0), (6, 1, 3, 0),
                             (8, 1, none, 0), (8, 0, 2, 1)):
        obs.append(Ob('h_watch', {'faults': 2, 'changes': 2, 'inactivity': 10000, 'pin': {'f0': f0, 'a0': a0, 'f1': f1, 'a1': a1}},
                      tiers=('quick',), timeout=900, path_timeout=300))
    obs.append(Ob('h_watch', {'faults': 1, 'changes': 2, 'inactivity': 2, 'gap_max': 5, 'pin': {'f0': none, 'a0': 0}}, tiers=('quick',),
                  timeout=900, path_timeout=300))
    obs.append(Ob('h_watch', {'faults': 1, 'changes': 2, 'pause': True, 'inactivity': 10000, 'pin': {'f0': none, 'a0': 0}}, tiers=('quick',),
                  timeout=900, path_timeout=300))
    obs.append(Ob('h_watch', {'faults': 1, 'changes': 2, 'pause': True, 'inactivity': 10000, 'pin': {'f0': 3, 'a0': 1}}, tiers=('quick',),
                  timeout=900, path_timeout=300))
    obs.append(Ob('h_watch', {'faults': 2, 'changes': 2, 'pause': True, 'inactivity': 10000}, tiers=('quick', 'thorough'), timeout=600,
                  path_timeout=300, twins=['raised', 'relisted', 'paused', 'resumed'], main=False))
    F = list(range(7)) + [8, none]
    obs += split(Ob('h_watch', {'faults': 2, 'changes': 2, 'inactivity': 10000}, timeout=900, path_timeout=300, tiers=('thorough',)),
                 f0=F, f1=[none, 0, 3, 5], a0=[0, 1], a1=[0, 1])
    obs += sample(Ob('h_watch', {'faults': 1, 'changes': 3, 'compaction': True, 'inactivity': 10000}, timeout=900, path_timeout=300,
                     tiers=('thorough',)), 8, seed=191, f0=F, a0=[0, 1, 2])
    obs += sample(Ob('h_watch', {'faults': 1, 'changes': 2, 'pause': True, 'inactivity': 10000}, timeout=900, path_timeout=300,
                     tiers=('thorough',)), 10, seed=192, f0=F, a0=[0, 1])
    obs += split(Ob('h_watch', {'faults': 1, 'changes': 2, 'inactivity': 2, 'gap_max': 5}, timeout=900, path_timeout=300, tiers=('thorough',)),
                 f0=[none, 0, 3], a0=[0, 1])
    obs += split(Ob('h_revise', {}, timeout=900, twins=['crd_modified']), by_category=[False, True])
    obs += split(Ob('h_adjust', {}, timeout=900, twins=['changed']), n=[1, 2])
    # (three revisions per cell -- n=3 -- did not exhaust within an hour: not claimed)
    # the racing revisions: namespace sets and the cluster-scoped resource are pinned per cell, the instants, the time a watcher
    # needs to stop (<= 12 s: aiotasks.stop() polls every 10 s) and the order of simultaneous wake-ups are symbolic
    for (na, nb, nc, r2) in ((3, 2, 4, (True, False, True)), (3, 1, 6, (False, True, False)), (3, 2, 6, (True, True, False)),
                             (3, 1, 4, (False, False, True))):
        obs.append(Ob('h_orchestrator', {'pin': {'na': na, 'nb': nb, 'nc': nc, 'r2a': r2[0], 'r2b': r2[1], 'r2c': r2[2]}}, tiers=('quick',),
                      timeout=900, path_timeout=300))
    obs.append(Ob('h_orchestrator', {'pin': {'na': 3, 'nb': 2, 'nc': 4}}, tiers=('quick', 'thorough'), timeout=300, path_timeout=300,
                  twins=['revision_during_adjustment'], main=False))
    obs += sample(Ob('h_orchestrator', {}, timeout=900, path_timeout=300, tiers=('thorough',)), 28, seed=193, na=[1, 3, 7], nb=[1, 2, 5], nc=[4, 6],
                  r2a=[False, True], r2b=[False, True], r2c=[False, True])
    obs.append(Ob('h_adjust', {'exclude_known': False, 'only_f10': True, 'pin': {'n': 2}}, expect='counterexample', finding='F10', timeout=600))
    return obs + _extra
