"""C08 — accumulated patches are delivered completely, atomically and exactly once.

H1 request plan: real patching.patch_obj on the FakeServer with a symbolic patch template (fields x transformation
    fns) with/without a status subresource: the request sequence is the statement's plan and the server ends with
    reference(body + patch + fns).
H2 interference: a foreign write slips before the i-th request (i symbolic) or the object vanishes (404): nothing
    computed from a stale state is written; the transformation is carried forward and lands exactly once.
H3 identity: delete-and-recreate under the same name while a handler runs -> no write may land on the new object
    (known finding F6: merge-patches are addressed by name only).
"""
import asyncio
import copy
import functools
import logging

import kopf
import vkopf
from vkopf.driver_api import Ob, split
from vkopf.symloop import SymLoop, Deadlock, Diverged, Livelock, cancel_all_others
from vkopf.world import World, FakeServer, base_body, make_resource, rfc7386, FIN, LHC, PLURAL

from kopf._cogs.clients import api, patching
from kopf._cogs.configs import configuration
from kopf._cogs.structs import bodies, finalizers, patches
from kopf._core.actions import application
from kopf._core.reactor import processing

logging.disable(logging.CRITICAL)
ENCODED = [patching.patch_obj, patches.Patch.as_json_patch, application.apply, application.patch_and_check,
           processing.process_resource_event]
META = {
    'bounds': 'h_plan also on objects without any status stanza (cells no_status). patch template: metadata.annotations.k / spec.f / status.s each absent|set|delete(null); fns subset of {add own finalizer, '
              'remove own finalizer, append an item to status.items}; status subresource yes/no; a foreign write (adds a finalizer or edits '
              'spec) before request i in 0..3 or a 404 from request i on; one object.',
    'outside': 'timeouts/5xx on the requests (C12); more than 3 fns; strategic-merge semantics of lists',
    'stubs': ['api.patch -> FakeServer (independent RFC 7386/6902)'],
    'assumptions': ['Kubernetes applies merge-patches per RFC 7386 and rejects a failed JSON-patch test with 422 atomically'],
}


def add_fin(body):
    finalizers.block_deletion(body, finalizer=FIN)


def del_fin(body):
    finalizers.allow_deletion(body, finalizer=FIN)


def append_item(body):
    body.setdefault('status', {}).setdefault('items', []).append('new')


FNS = [add_fin, del_fin, append_item]


def build_patch(pa, ps, pst, f0, f1, f2, body):
    p = patches.Patch(body=bodies.Body(body))
    if pa == 1:
        p.metadata.annotations['k'] = 'v2'
    elif pa == 2:
        p.metadata.annotations['k'] = None
    if ps == 1:
        p.spec['f'] = 'new'
    elif ps == 2:
        p.spec['f'] = None
    if pst == 1:
        p.status['s'] = 'ok'
    elif pst == 2:
        p.status['s'] = None
    for on, fn in zip((f0, f1, f2), FNS):
        if on:
            p.fns.append(fn)
    return p


def start_body(has_fin):
    raw = base_body(spec={'x': 1, 'f': 'old'}, annotations={'k': 'v1', 'other': 'keep'},
                    finalizers=['a/fin'] + ([FIN] if has_fin else []))
    if not vkopf.cell().get('no_status'):
        raw['status'] = {'s': 'old', 'items': ['i0']}     # (cell no_status: a fresh object without any status stanza)
    return raw


def reference(body, patch_dict, fns):
    want = rfc7386(body, patch_dict)
    for fn in fns:
        fn(want)
    return want


def strip_sys(o):
    o = copy.deepcopy(o)
    if o is not None:
        o['metadata'].pop('resourceVersion', None)
        if not o['metadata'].get('finalizers', True):
            del o['metadata']['finalizers']
    return o


def run_patch(sub, has_fin, pa, ps, pst, f0, f1, f2, foreign_at=None, foreign_kind=0, gone_at=None, second_round=True):
    raw = start_body(has_fin)
    loop = SymLoop()
    server = FakeServer(raw, status_subresource=sub, clock=lambda: loop._now)
    resource = make_resource(sub)
    settings = configuration.OperatorSettings()
    patch = build_patch(pa, ps, pst, f0, f1, f2, raw)
    patch_dict = copy.deepcopy(dict(patch))
    fns = list(patch.fns)
    hooks = {'fired': False}

    def hook(idx, srv):
        if foreign_at is not None and idx == foreign_at and not hooks['fired'] and srv.obj is not None:
            hooks['fired'] = True
            if foreign_kind == 0:
                srv.write(lambda o: o['metadata'].setdefault('finalizers', []).append('z/fin'))
            elif foreign_kind == 1:
                srv.write(lambda o: o['spec'].update(x=2))
            elif foreign_kind == 2:
                srv.write(lambda o: o['metadata']['finalizers'].remove('a/fin'))        # its owner releases the object
            else:
                srv.write(lambda o: o['metadata']['finalizers'].insert(0, 'y/fin'))    # list indexes shift
        if gone_at is not None and idx >= gone_at:
            srv.obj = None
    server.pre_request = hook

    async def main():
        orig = api.patch
        api.patch = server.patch
        try:
            res1 = await patching.patch_obj(settings=settings, resource=resource, namespace='ns', name='n',
                                            patch=patch, logger=logging.getLogger('x'))
            n1 = len(server.requests)
            res2 = None
            if second_round and res1[1] is not None and server.obj is not None:
                # next cycle: the remaining transformation is re-evaluated against a fresh state
                fresh = copy.deepcopy(server.obj)
                p2 = patches.Patch(res1[1], body=bodies.Body(fresh))
                res2 = await patching.patch_obj(settings=settings, resource=resource, namespace='ns', name='n',
                                                patch=p2, logger=logging.getLogger('x'))
            return res1, n1, res2
        finally:
            api.patch = orig
    res1, n1, res2 = loop.run(main())
    return raw, server, patch_dict, fns, res1, n1, res2, hooks['fired']


def h_plan(sub: bool, has_fin: bool, pa: int, ps: int, pst: int, f0: bool, f1: bool, f2: bool) -> bool:
    """
    pre: 0 <= pa <= 2 and 0 <= ps <= 2 and 0 <= pst <= 2
    post: _ == True
    """
    vkopf.begin_path()
    pa, ps, pst = vkopf.pin('pa', pa), vkopf.pin('ps', ps), vkopf.pin('pst', pst)
    raw, server, patch_dict, fns, res1, n1, res2, _ = run_patch(sub, has_fin, pa, ps, pst, f0, f1, f2)
    ok = True
    reqs = server.requests
    # the plan: [merge body] [merge status via /status iff subresource] [json body ops] [json status ops via /status]
    body_part = {k: v for k, v in patch_dict.items() if not (sub and k == 'status')}
    status_part = patch_dict.get('status') if sub else None
    plan = []
    if body_part:
        plan.append(('application/merge-patch+json', None))
    if status_part is not None:
        plan.append(('application/merge-patch+json', 'status'))
    want = reference(raw, patch_dict, fns)
    body_ops_needed = strip_sys({k: v for k, v in want.items() if k != 'status'}) != strip_sys({k: v for k, v in rfc7386(raw, patch_dict).items() if k != 'status'})
    status_ops_needed = want.get('status') != rfc7386(raw, patch_dict).get('status')
    if sub:
        if body_ops_needed:
            plan.append(('application/json-patch+json', None))
        if status_ops_needed:
            plan.append(('application/json-patch+json', 'status'))
    elif body_ops_needed or status_ops_needed:
        plan.append(('application/json-patch+json', None))
    got = [(r['ctype'], r['sub']) for r in reqs]
    if got != plan:
        ok = False
    if any(r['result'] != 200 for r in reqs):
        ok = False
    for r in reqs:
        if r['ctype'].startswith('application/json-patch'):
            vkopf.witness('json_patch')
            if r['payload'][0]['op'] != 'test' or r['payload'][0]['path'] != '/metadata/resourceVersion':
                ok = False
        if r['sub'] == 'status':
            vkopf.witness('status_subresource')
    # everything accumulated reached the server; nothing else changed
    if strip_sys(server.obj) != strip_sys(want):
        ok = False
    if res1[1] is not None:
        ok = False
    return vkopf.verdict(ok)


def h_interference(sub: bool, has_fin: bool, pa: int, pst: int, f0: bool, f1: bool, f2: bool, at: int, kind: int, gone: bool) -> bool:
    """
    pre: 0 <= pa <= 1 and 0 <= pst <= 1 and 0 <= at <= 3 and 0 <= kind <= 3
    post: _ == True
    """
    vkopf.begin_path()
    at, kind = vkopf.pin('at', at), vkopf.pin('kind', kind)
    raw, server, patch_dict, fns, res1, n1, res2, fired = run_patch(
        sub, has_fin, pa, 0, pst, f0, f1, f2, foreign_at=None if gone else at, foreign_kind=kind, gone_at=at if gone else None)
    ok = True
    reqs = server.requests
    if gone:
        # a vanished object ends patching silently: (None, None), no request after the first 404
        statuses = [r['result'] for r in reqs]
        if 404 in statuses:
            vkopf.witness('gone')
            if statuses.index(404) != len(statuses) - 1 or res1 != (None, None):
                ok = False
        return vkopf.verdict(ok)
    conflict = any(r['result'] == 422 for r in reqs[:n1])
    # foreign data is never lost
    final = server.obj
    if fired and kind == 0 and 'z/fin' not in final['metadata'].get('finalizers', []):
        ok = False
    if fired and kind == 1 and final['spec'].get('x') != 2:
        ok = False
    # ... and nothing of the foreign state is clobbered: the foreign finalizers are exactly what the foreign writers left
    foreign_expected = ['a/fin']
    if fired and kind == 0:
        foreign_expected = ['a/fin', 'z/fin']
    elif fired and kind == 2:
        foreign_expected = []
    elif fired and kind == 3:
        foreign_expected = ['y/fin', 'a/fin']
    if [f for f in final['metadata'].get('finalizers', []) if f != FIN] != foreign_expected:
        ok = False
    if conflict:
        vkopf.witness('conflict')
        # nothing computed from the stale state was written by the failed request, the transformation is carried forward ...
        if res1[1] is None or list(res1[1].fns) != fns:
            ok = False
    # ... and after the next cycle its effect is there exactly once
    fins = final['metadata'].get('finalizers', [])
    if fins.count(FIN) > 1:
        ok = False
    if res2 is not None or not conflict:
        if f1:
            ok = ok and FIN not in fins                       # add then remove (in this order) == removed
        elif f0:
            ok = ok and fins.count(FIN) == 1
        else:
            ok = ok and (fins.count(FIN) == (1 if has_fin else 0))
        if f2:
            ok = ok and final.get('status', {}).get('items') == ['i0', 'new']      # appended exactly once
        else:
            ok = ok and final.get('status', {}).get('items') == ['i0']
        if pa == 1:
            ok = ok and final['metadata']['annotations'].get('k') == 'v2'
        if pst == 1:
            ok = ok and final.get('status', {}).get('s') == 'ok'
    return vkopf.verdict(ok)


def h_identity(recreate: bool, slow: bool) -> bool:
    """
    post: _ == True
    """
    vkopf.begin_path()
    w = World(base_body())

    @kopf.on.create(PLURAL, id='hc', registry=w.registry)
    async def hc(patch, **kw):
        patch.status['result'] = 'computed-for-u1'
        if recreate:
            # while the handler runs, the object is deleted and re-created under the same name (new uid)
            w.server.obj = base_body(uid='u2', resourceVersion='50')
            w.server.rv = 50

    async def main():
        try:
            await w.process('ADDED')
        finally:
            await cancel_all_others()
    w.run(main())
    obj = w.server.obj
    ok = True
    if obj['metadata']['uid'] == 'u2':
        vkopf.witness('recreated')
        # nothing computed for u1 may land on u2
        if obj.get('status') or obj['metadata'].get('annotations'):
            ok = False
    return vkopf.verdict(ok)


def h_daemon_delivery(stop_kind: int, gap: int, sub: bool, returns: bool, attempts: int) -> bool:
    """
    pre: 0 <= stop_kind <= 2 and gap >= 0 and 1 <= attempts <= 2
    post: _ == True
    """
    import json
    from kopf._cogs.aiokits import aiotoggles
    vkopf.begin_path()
    stop_kind = vkopf.pin('stop_kind', stop_kind)
    w = World(base_body(labels={'run': 'yes'}), status_subresource=sub, tmode='symbolic')
    loop = w.loop
    calls = []

    @kopf.daemon(PLURAL, id='dm', registry=w.registry, labels={'run': 'yes'}, cancellation_timeout=5, backoff=1)
    async def dm(stopped, patch, retry, **kw):
        calls.append(retry)
        if retry + 1 < attempts:
            patch.status['tries'] = 'try%d' % retry          # what a failing attempt accumulated is delivered, too
            raise kopf.TemporaryError('again', delay=1)
        await stopped.wait()
        # the last words of a daemon that was asked to stop: accumulated like everything else
        patch.status['bye'] = 'said'
        if returns:
            return {'exit': 'clean'}

    async def settle():
        last = None
        for _ in range(8):
            if w.server.obj is None:
                return
            rv = w.server.obj['metadata']['resourceVersion']
            if rv == last:
                return
            last = rv
            await w.process('MODIFIED')

    async def main():
        try:
            await w.process('ADDED')
            await settle()
            await asyncio.sleep(gap + 3)
            await settle()
            if stop_kind == 0:
                w.server.write(lambda o: o['metadata'].update(deletionTimestamp='2020-01-01T00:00:00Z'))
            elif stop_kind == 1:
                w.server.write(lambda o: o['metadata']['labels'].update(run='no'))
            else:
                w.server.write(lambda o: o['spec'].update(x=5))     # an unrelated edit: the daemon keeps running
            await settle()
            await asyncio.sleep(10)
            await settle()
        finally:
            await cancel_all_others()
    try:
        w.run(main(), max_steps=20000)
    except (Deadlock, Diverged, Livelock):
        return vkopf.verdict(False)
    sent = json.dumps([r.get('payload') for r in w.server.requests], default=str)
    ok = True
    if attempts == 2 and '"try0"' not in sent:
        ok = False
    if stop_kind in (0, 1):
        vkopf.witness('stopped_with_last_words')
        if '"said"' not in sent:
            ok = False                              # everything accumulated reaches the API server
        if returns and '"clean"' not in sent:
            ok = False
        if sub and any('"said"' in json.dumps(r.get('payload'), default=str) and not r.get('sub') for r in w.server.requests):
            ok = False                              # status goes through the status subresource when there is one
    elif '"said"' in sent:
        ok = False
    return vkopf.verdict(ok)


def obligations():
    obs = split(Ob('h_plan', {}, timeout=1500, twins=['json_patch', 'status_subresource']), pa=[0, 1, 2], pst=[0, 1, 2])
    obs += split(Ob('h_plan', {'no_status': True}, timeout=1500), pa=[0], pst=[0, 1, 2])
    obs += split(Ob('h_interference', {}, timeout=1500, twins=['conflict', 'gone']), at=[0, 1, 2, 3], kind=[0, 1, 2, 3])
    obs.append(Ob('h_identity', {}, expect='counterexample', finding='F6', timeout=300))
    obs += split(Ob('h_daemon_delivery', {}, timeout=900, path_timeout=200, twins=['stopped_with_last_words']), stop_kind=[0, 1, 2])
    return obs
