"""C03 — level-triggered convergence across changes, restarts and downtime.

H2: bounded closed loop: a symbolic history prefix (edits, graceful restarts, kills before/after the server applied the
    in-flight PATCH, downtime with accumulated edits, finitely many handler failures), then quiescence; oracle at
    quiescence from the server object and the handler log only.
H1: ranking step (all handlers succeed): from an arbitrary persisted state one real processing step either sends no
    request and the state is closed, or strictly progresses (shared harness c02.h_step checks closure exactly when
    done; here the no-request <=> closed equivalence is checked).
"""
import asyncio
import copy
import json
import logging

import kopf
import vkopf
from vkopf.driver_api import Ob, split, sample
from vkopf.loop import ClosedLoop, read_record, read_lhc, progress_keys
from vkopf.symloop import Deadlock, Diverged, Livelock, cancel_all_others
from vkopf.world import base_body, FIN, LHC, PLURAL

from kopf._cogs.configs import diffbase
from kopf._core.actions import application, progression
from kopf._core.reactor import processing, queueing

logging.disable(logging.CRITICAL)
ENCODED = [processing.process_resource_event, processing.process_resource_causes, processing.process_changing_cause,
           application.apply, application.patch_and_check, progression.State.store, progression.State.purge,
           diffbase.AnnotationsDiffBaseStorage.store, diffbase.DiffBaseStorage.build]
META = {
    'bounds': 'one object; handlers: create + update (+ mandatory delete handler cell; + an update handler on field spec.a with the steps "edit a" / "revert a, edit x" cell); history prefix of <=3 '
              'steps from {essential edit, graceful restart, kill before apply, kill after apply, downtime with 2 accumulated edits, '
              'next handler invocation fails temporarily, delete request}; quiescence bounded by 14 further events; T-concrete (delays 5 s).',
    'outside': 'unbounded liveness (checked as termination within the bound); several objects; watch-stream level re-listing (C19)',
    'stubs': ['api.patch -> FakeServer', 'kill = BaseException out of the API request; restart = new memories + listing event'],
    'assumptions': ['after a (re)start the object is re-delivered by the initial listing', 'the echo of every write is eventually delivered in order'],
}
STEPS = ['edit', 'restart', 'kill_before', 'kill_after', 'downtime', 'fail_next', 'delete', 'conflict_next',
         'edit_a', 'revert_a_edit_x']     # (the last two only in cells with a field-filtered update handler)


def run_history(cell, steps, kill_req):
    storage = cell.get('storage', 'smart')
    w = ClosedLoop(base_body(), storage=storage, lifecycle=cell.get('lifecycle', 'all_at_once'))
    w.add_handler(kopf.on.create, 'hc')
    w.add_handler(kopf.on.update, 'hu')
    if cell.get('delete_handler'):
        w.add_handler(kopf.on.delete, 'hd')
    if cell.get('field_handler'):
        w.add_handler(kopf.on.update, 'hf', field='spec.a')     # selected only by changes of spec.a
    info = {'downtime_lhc': None, 'downtime_at': None}

    def fail_next():
        # the next invocation of whatever handler runs fails temporarily (finitely many failures)
        for hid in ('hc', 'hu', 'hd', 'hf'):
            n = len([i for i in w.invocations if i['id'] == hid])
            seq = w.outcomes.setdefault(hid, [])
            while len(seq) <= n:
                seq.append(0)
            seq[n] = 1

    async def main():
        try:
            first = True
            for s in steps:
                if first and STEPS[s] != 'conflict_next':
                    await w.deliver()         # the object is created and seen
                first = False
                if w.server.obj is None:
                    break
                name = STEPS[s]
                if name == 'edit':
                    w.server.write(lambda o: o['spec'].update(x=o['spec']['x'] + 1))
                elif name == 'restart':
                    w.graceful_restart()
                elif name == 'kill_before':
                    w.arm_kill(kill_req, 'before')
                elif name == 'kill_after':
                    w.arm_kill(kill_req, 'after')
                elif name == 'downtime':
                    info['downtime_lhc'] = read_lhc(w.server.obj, storage)
                    info['downtime_at'] = len(w.invocations)
                    w.restart()               # the operator is down ...
                    w.server.write(lambda o: o['spec'].update(x=o['spec']['x'] + 1))
                    w.server.write(lambda o: o['spec'].update(y='added'))
                    w.delivered_rv = None     # ... and comes back: everything is listed again
                    w.needs_listing = True
                elif name == 'fail_next':
                    fail_next()
                elif name == 'edit_a':
                    w.server.write(lambda o: o['spec'].update(a=o['spec'].get('a', 0) + 1))
                elif name == 'revert_a_edit_x':
                    # the field goes back to its last-handled value while something else changes: the field handler is
                    # no longer selected, whatever state it was left in
                    w.server.write(lambda o: (o['spec'].pop('a', None), o['spec'].update(x=o['spec']['x'] + 1)))
                elif name == 'delete':
                    w.server.write(lambda o: o['metadata'].update(deletionTimestamp='2020-01-01T00:00:00Z'))
                elif name == 'conflict_next':
                    # a foreign (non-essential) write slips in right before the operator's next request: a JSON-patch with
                    # a resourceVersion test gets 422 and the transformation is carried forward to the next cycle
                    base = len(w.server.requests)

                    def hook(idx, srv, base=base):
                        if idx == base and srv.obj is not None:
                            srv.pre_request = None
                            srv.write(lambda o: o.setdefault('status', {}).update(foreign='w'))
                    w.server.pre_request = hook
                if w.server.obj is None:
                    break
                if w.needs_listing:
                    w.needs_listing = False
                    await w.deliver_listing()
                else:
                    await w.deliver()
            info['converged'] = await w.settle(max_events=14)
            info['requests_at_quiescence'] = len(w.server.requests)
            info['final'] = copy.deepcopy(w.server.obj)
            # self-silence: the final object delivered once more triggers no write
            if w.server.obj is not None:
                await w.deliver()
                await w.deliver()
            info['requests_after'] = len(w.server.requests)
        finally:
            await cancel_all_others()
    w.run(main(), max_steps=30000)
    return w, info


def h_converge(s0: int, s1: int, s2: int, s3: int, kill_req: int) -> bool:
    """
    pre: 0 <= s0 <= 9 and 0 <= s1 <= 9 and 0 <= s2 <= 9 and 0 <= s3 <= 9 and 0 <= kill_req <= 1
    post: _ == True
    """
    vkopf.begin_path()
    c = vkopf.cell()
    s0, s1, s2 = vkopf.pin('s0', s0), vkopf.pin('s1', s1), vkopf.pin('s2', s2)
    n = c.get('n', 3)
    steps = [s0, s1, s2, s3][:n]
    if not c.get('field_handler') and any(s > 7 for s in steps):
        return True
    storage = c.get('storage', 'smart')
    try:
        w, info = run_history(c, steps, kill_req)
    except (Deadlock, Diverged, Livelock):
        return vkopf.verdict(False)
    ok = bool(info.get('converged'))
    final = info['final']
    if final is None:
        vkopf.witness('deleted')
        # the object is gone: nothing more is written
        return vkopf.verdict(ok and info['requests_after'] == info['requests_at_quiescence'])
    deleting = final['metadata'].get('deletionTimestamp') is not None
    if info['requests_after'] != info['requests_at_quiescence']:
        ok = False                                  # the framework itself stops writing to the object
    if progress_keys(final, storage):
        ok = False                                  # no progress records remain
    essence = {'spec': final['spec']}
    if not deleting:
        if read_lhc(final, storage) != essence:
            ok = False                              # last-handled state == final essential state
        good = [i for i in w.invocations if i['outcome'] == 0 and i['id'] in ('hc', 'hu')]
        if not good or good[-1]['spec'] != final['spec']:
            ok = False                              # a selected handler completed against the final essential state
        vkopf.witness('converged_live')
    # changes made while the operator was down are handled as ONE accumulated change
    if info['downtime_at'] is not None and info['downtime_lhc'] is not None and not deleting:
        later = [i for i in w.invocations[info['downtime_at']:] if i['id'] == 'hu' and i['old'] == info['downtime_lhc']]
        spans = [i for i in later if i['new'] is not None and i['new'].get('spec', {}).get('y') == 'added'
                 and i['new']['spec']['x'] >= info['downtime_lhc']['spec']['x'] + 1]
        if not spans:
            ok = False
        else:
            vkopf.witness('accumulated')
    return vkopf.verdict(ok)


def obligations():
    obs = []
    S = list(range(8))
    obs += split(Ob('h_converge', {'storage': 'smart', 'n': 2}, timeout=1200, path_timeout=300,
                    twins=['converged_live', 'accumulated', 'deleted']), s0=S)
    obs += split(Ob('h_converge', {'storage': 'smart', 'n': 2, 'delete_handler': True}, timeout=1200, path_timeout=300), s0=[7, 0, 6])
    # a handler that a later change deselects while it is still retrying (its record must go all the same)
    for (a, b, c3) in ((5, 8, 9), (8, 9, 0), (8, 5, 9)):
        obs.append(Ob('h_converge', {'storage': 'smart', 'n': 3, 'field_handler': True, 'pin': {'s0': a, 's1': b, 's2': c3}}, timeout=900,
                      path_timeout=300))
    obs += sample(Ob('h_converge', {'storage': 'annotations', 'n': 3, 'field_handler': True}, tiers=('thorough',), timeout=900, path_timeout=300),
                  18, seed=304, s0=[5, 8, 0], s1=[8, 9, 5], s2=[9, 8, 1, 3])
    obs += sample(Ob('h_converge', {'storage': 'status', 'n': 3}, tiers=('thorough',), timeout=900, path_timeout=300), 36, seed=301, s0=S, s1=S)
    obs += sample(Ob('h_converge', {'storage': 'smart', 'n': 3, 'delete_handler': True}, tiers=('thorough',), timeout=900, path_timeout=300),
                  36, seed=302, s0=S, s1=S)
    obs += sample(Ob('h_converge', {'storage': 'annotations', 'lifecycle': 'one_by_one', 'n': 3}, tiers=('thorough',), timeout=900, path_timeout=300),
                  36, seed=303, s0=S, s1=S)
    return obs
