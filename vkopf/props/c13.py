"""C13 — peering: lower-priority operators pause, exactly the top one is active.

H1: real peering.process_peering_event (T-symbolic: peering.datetime/iso8601 -> affine shim; patch_obj recorded):
    symbolic peer records (priority, lifetime incl. missing, lastseen age incl. missing, unknown fields, own record).
H2: real peering.keepalive on SymLoop with symbolic lifetime and jitter: the record is renewed before it expires and
    removed (None entry) on graceful exit.
H3: two real peering stacks (keepalive + process_peering_event + pause toggles) on one SymLoop sharing one peering
    object with ordered event delivery; symbolic start/exit/kill instants.
"""
import asyncio
import copy
import logging

import vkopf
from vkopf import shimdt
from vkopf.driver_api import Ob, split
from vkopf.symloop import SymLoop, Deadlock, Diverged, Livelock, cancel_all_others

from kopf._cogs.aiokits import aiotoggles
from kopf._cogs.configs import configuration
from kopf._cogs.structs import references
from kopf._core.engines import peering

logging.disable(logging.CRITICAL)
from kopf._cogs.clients import watching as _watching
from kopf._core.engines import daemons as _daemons
from kopf._core.reactor import orchestration as _orch, running as _running
ENCODED = [peering.process_peering_event, peering.Peer.__init__, peering.keepalive, peering.touch, peering.clean,
           _orch.spawn_missing_peerings, _watching.streaming_block, _daemons.daemon_killer, _running.spawn_tasks]
META = {
    'technique': 'bounded symbolic execution of the real kopf code (CrossHair 0.0.110 + z3): exhaustive path exploration per obligation cell, counterexamples replayed concretely; plus direct z3 queries whose formulas are generated from the source AST of the real functions (vkopf/astsmt.py; the keep-alive period for every lifetime), validated against the real code on concrete vectors on every run',
    'bounds': 'H1: 2 foreign peers + optional own record; symbolic priorities, lifetimes (>=0 or missing -> 60), lastseen ages (>=0 or '
              'missing), our priority symbolic; prior toggle state symbolic. H2: lifetime symbolic >= 2 (0/1 cannot be renewed in time by '
              'construction: outside), jitter symbolic in [5,10], 3 renewals. H3: 2 operators, symbolic priorities (distinct), start '
              'offset <= 3 s, one graceful exit or kill within 8 s, lifetime in cell; H2b: request latency <= 3 s, stop within 3 s.',
    'outside': 'H4 (h_cluster): two WHOLE operators (real spawn_tasks + run_tasks each) on one fake cluster over the fake HTTP session: start '
               'offset of the higher-priority one in {0, 4, 40} s, its life in {20, 70} s, graceful exit or kill, lifetime 30 s, jitter fixed to 5 '
               '(T-concrete grids: every instant is compared with the periodic keep-alives); task ownership per operator is traced through a '
               'context variable because kopf treats every task of the loop as its own. '
               'Outside: lifetime <= 1; more than 3 operators; wall-clock skew between operators; the watch stream of the peering resource (C19)',
    'stubs': ['peering.patching.patch_obj -> recorder / shared peering object', 'peering.datetime, peering.iso8601 -> affine shim',
              'random.randint -> symbolic jitter'],
    'assumptions': ['all operators share one clock'],
}
RESOURCE = references.Resource('kopf.dev', 'v1', 'clusterkopfpeerings', namespaced=False)
ME = peering.Identity('me')


def peer_record(present, prio, has_life, life, has_seen, age, extra):
    if not present:
        return None
    rec = {'priority': prio}
    if has_life:
        rec['lifetime'] = life
    if has_seen:
        rec['lastseen'] = shimdt.ShimStamp(shimdt.ShimDT(shimdt.ORIGIN - age))
    if extra:
        rec['futureField'] = {'x': 1}
    return rec


def h_event(my_prio: int, was_on: bool,
            a_present: bool, a_prio: int, a_has_life: bool, a_life: int, a_has_seen: bool, a_age: int,
            b_present: bool, b_prio: int, b_has_life: bool, b_life: int, b_has_seen: bool, b_age: int,
            own_present: bool, own_age: int, extra: bool) -> bool:
    """
    pre: a_life >= 0 and a_age >= 0 and b_life >= 0 and b_age >= 0 and own_age >= 0
    post: _ == True
    """
    vkopf.begin_path()
    a_present, b_present = vkopf.pin('a_present', a_present), vkopf.pin('b_present', b_present)
    a_has_life, a_has_seen = vkopf.pin('a_has_life', a_has_life), vkopf.pin('a_has_seen', a_has_seen)
    b_has_life, b_has_seen = vkopf.pin('b_has_life', b_has_life), vkopf.pin('b_has_seen', b_has_seen)
    own_present = vkopf.pin('own_present', own_present)
    loop = SymLoop()
    settings = configuration.OperatorSettings()
    settings.peering.name = 'default'
    settings.peering.priority = my_prio
    settings.peering.lifetime = 60
    status = {}
    recs = {'a': peer_record(a_present, a_prio, a_has_life, a_life, a_has_seen, a_age, extra),
            'b': peer_record(b_present, b_prio, b_has_life, b_life, b_has_seen, b_age, False),
            'me': peer_record(own_present, my_prio, True, 60, True, own_age, False)}
    for k, v in recs.items():
        if v is not None:
            status[k] = v
    patches_log = []

    async def fake_patch_obj(*, settings, resource, namespace, name, patch, logger, silent=False):
        patches_log.append((loop.time(), copy.copy(dict(patch).get('status', {}))))
        return {}, None

    async def main():
        toggle = aiotoggles.Toggle(was_on)
        orig = peering.patching.patch_obj
        peering.patching.patch_obj = fake_patch_obj
        try:
            with shimdt.installed(peering):
                t0 = loop.time()
                await peering.process_peering_event(
                    raw_event={'type': 'MODIFIED', 'object': {'metadata': {'name': 'default'}, 'status': status}},
                    namespace=None, resource=RESOURCE, identity=ME, settings=settings, conflicts_found=toggle,
                    stream_pressure=asyncio.Event())
                return toggle.is_on(), t0, loop.time()
        finally:
            peering.patching.patch_obj = orig
    is_on, t0, t1 = loop.run(main())
    # independent model
    def live(present, has_life, life, has_seen, age):
        if not present:
            return False, None
        lf = life if has_life else 60
        seen_ago = age if has_seen else 0
        remaining = lf - seen_ago
        return remaining > 0, remaining
    a_live, a_rem = live(a_present, a_has_life, a_life, a_has_seen, a_age)
    b_live, b_rem = live(b_present, b_has_life, b_life, b_has_seen, b_age)
    blocking = []
    if a_live and a_prio >= my_prio:
        blocking.append(a_rem)
    if b_live and b_prio >= my_prio:
        blocking.append(b_rem)
    ok = is_on == bool(blocking)
    if blocking:
        vkopf.witness('paused')
        # sleeps until the earliest blocking deadline, then touches itself (so that a fresh event re-evaluates)
        earliest = blocking[0]
        for r in blocking[1:]:
            if r < earliest:
                earliest = r
        if t1 - t0 != earliest:
            ok = False
        if not patches_log or 'me' not in patches_log[-1][1] or patches_log[-1][1]['me'] is None:
            ok = False
    else:
        if t1 != t0:
            ok = False
    # dead records are cleaned (set to None), live ones never
    dead = set()
    if a_present and not a_live:
        dead.add('a')
    if b_present and not b_live:
        dead.add('b')
    if own_present and not (60 - own_age > 0):
        dead.add('me')
    cleaned = set()
    for t, st in patches_log:
        for k, v in st.items():
            if v is None:
                cleaned.add(k)
    if cleaned != dead:
        ok = False
    if dead:
        vkopf.witness('cleaned')
    return vkopf.verdict(ok)


def h_keepalive(lifetime: int, j0: int, j1: int, j2: int, cancel_after: int, lat: int, cancel_at: int) -> bool:
    """
    pre: lifetime >= 2 and 5 <= j0 <= 10 and 5 <= j1 <= 10 and 5 <= j2 <= 10 and 0 <= cancel_after <= 1
    pre: 0 <= lat <= 3 and 0 <= cancel_at <= 3
    post: _ == True
    """
    return keepalive_impl(lifetime, j0, j1, j2, cancel_after, lat, cancel_at)


def keepalive_impl(lifetime, j0, j1, j2, cancel_after, lat, cancel_at):
    # (no contract of its own: C20 h_withdraw calls it, too, and a callee's contract would swallow its failures there)
    vkopf.begin_path()
    early = vkopf.cell().get('early', False)     # the operator stops at an arbitrary early instant, requests have a latency
    if not early:
        lat = cancel_at = 0
    loop = SymLoop()
    settings = configuration.OperatorSettings()
    settings.peering.name = 'default'
    settings.peering.priority = 7
    settings.peering.lifetime = lifetime
    touches = []
    jit = [j0, j1, j2]

    enough = {}

    async def fake_patch_obj(*, settings, resource, namespace, name, patch, logger, silent=False):
        touches.append((loop.time(), copy.copy(dict(patch)['status']['me'])))     # applied by the server ...
        if len(touches) >= 3 and 'ev' in enough:
            enough['ev'].set()
        if lat > 0:
            await asyncio.sleep(lat)                                              # ... the response arrives later
        return {}, None

    def fake_randint(a, b):
        return jit[len(touches) % 3] if touches else j0

    async def main():
        orig = (peering.patching.patch_obj, peering.random.randint)
        peering.patching.patch_obj = fake_patch_obj
        peering.random = type('R', (), {'randint': staticmethod(fake_randint)})
        try:
            with shimdt.installed(peering):
                enough['ev'] = asyncio.Event()
                task = asyncio.create_task(peering.keepalive(namespace=None, resource=RESOURCE, identity=ME, settings=settings))
                if early:
                    await asyncio.sleep(cancel_at)
                else:
                    await enough['ev'].wait()           # three renewals observed (no polling against symbolic durations)
                    if cancel_after > 0:
                        await asyncio.sleep(cancel_after)
                task.cancel()
                await asyncio.gather(task, return_exceptions=True)
        finally:
            import random as _random
            peering.patching.patch_obj = orig[0]
            peering.random = _random
    loop.run(main())
    ok = len(touches) >= 2 or (early and not touches)
    live = [t for t in touches if t[1] is not None]
    # renewed before it expires: consecutive keep-alives closer than the lifetime, but not busy-looping
    for (ta, ra), (tb, rb) in zip(live, live[1:]):
        if not (1 <= tb - ta < lifetime) and (not early or lifetime >= 11):
            ok = False          # (with request latency only lifetimes above the 5..10 s allowance can be renewed in time)
        if ra['lifetime'] != lifetime or ra['priority'] != 7:
            ok = False
    # removed on graceful exit: the last write deletes the record
    if not touches:
        pass
    elif touches[-1][1] is not None:
        ok = False
    else:
        vkopf.witness('withdrawn')
        if early and len(touches) == 2:
            vkopf.witness('withdrawn_during_first_request')
    return vkopf.verdict(ok)


# ------------------------------------------------------------------------------------------------ H3
def run_two(prio0, prio1, start1, exit0_at, kill0, lifetime, horizon_extra=0, ties=()):
    """Two operators: 0 starts at t=0, 1 at start1; operator 0 exits gracefully (or is killed) at exit0_at."""
    loop = SymLoop()
    shared = {'status': {}, 'rv': 0}
    subs = []          # per operator: asyncio.Queue of events (ordered delivery)
    settings_of = {}
    toggles = []
    log = []

    async def fake_patch_obj(*, settings, resource, namespace, name, patch, logger, silent=False):
        for k, v in dict(patch).get('status', {}).items():
            if v is None:
                shared['status'].pop(k, None)
            else:
                shared['status'][k] = v
        shared['rv'] += 1
        snap = {'type': 'MODIFIED', 'object': {'metadata': {'name': 'default', 'resourceVersion': str(shared['rv'])},
                                                 'status': dict(shared['status'])}}
        for q in subs:
            q.put_nowait(snap)
        return {'metadata': {'resourceVersion': str(shared['rv'])}}, None

    def operator(i, prio):
        settings = configuration.OperatorSettings()
        settings.peering.name = 'default'
        settings.peering.priority = prio
        settings.peering.lifetime = lifetime
        settings_of[i] = settings
        ident = peering.Identity(f'op{i}')
        q = asyncio.Queue()
        subs.append(q)
        toggle = aiotoggles.Toggle(True)        # paused until the first peering event says otherwise (as in spawn_tasks)
        toggles.append(toggle)

        async def watcher():
            q.put_nowait({'type': None, 'object': {'metadata': {'name': 'default'}, 'status': dict(shared['status'])}})
            while True:
                ev = await q.get()
                pressure = asyncio.Event()
                proc = asyncio.create_task(peering.process_peering_event(
                    raw_event=ev, namespace=None, resource=RESOURCE, identity=ident, settings=settings,
                    conflicts_found=toggle, stream_pressure=pressure))
                # a newer event interrupts the sleep of the processing of an older one
                getter = asyncio.create_task(q.get())
                done, _ = await asyncio.wait({proc, getter}, return_when=asyncio.FIRST_COMPLETED)
                if getter in done and not proc.done():
                    pressure.set()
                    await proc
                    q.put_nowait(getter.result()) if False else None
                    nxt = getter.result()
                    # re-queue at the front: process it next
                    items = [nxt]
                    while not q.empty():
                        items.append(q.get_nowait())
                    for it in items:
                        q.put_nowait(it)
                elif getter in done:
                    nxt = getter.result()
                    items = [nxt]
                    while not q.empty():
                        items.append(q.get_nowait())
                    for it in items:
                        q.put_nowait(it)
                else:
                    getter.cancel()
        ka = peering.keepalive(namespace=None, resource=RESOURCE, identity=ident, settings=settings)
        return ka, watcher()

    async def main():
        orig = (peering.patching.patch_obj, peering.random)
        peering.patching.patch_obj = fake_patch_obj
        peering.random = type('R', (), {'randint': staticmethod(lambda a, b: 5)})
        try:
            with shimdt.installed(peering):
                ka0, w0 = operator(0, prio0)
                t_ka0, t_w0 = asyncio.create_task(ka0), asyncio.create_task(w0)
                if start1 > 0:
                    await asyncio.sleep(start1)
                ka1, w1 = operator(1, prio1)
                t_ka1, t_w1 = asyncio.create_task(ka1), asyncio.create_task(w1)
                if exit0_at > 0:
                    await asyncio.sleep(exit0_at)
                log.append(('before_exit', loop.time(), toggles[0].is_on(), toggles[1].is_on()))
                if kill0:
                    # kill -9: no farewell; the record simply stops being renewed
                    t_w0.cancel()
                    peering.patching.patch_obj = fake_patch_obj
                    ka_task = t_ka0
                    # cancelling keepalive would withdraw the record; emulate a hard kill by swallowing its last write
                    killed = {'on': True}
                    orig_fake = fake_patch_obj

                    async def muted(**kw):
                        if kw['settings'] is settings_of[0]:
                            return {}, None          # the killed process writes nothing any more
                        return await orig_fake(**kw)
                    peering.patching.patch_obj = muted
                    t_ka0.cancel()
                    await asyncio.gather(t_ka0, t_w0, return_exceptions=True)
                else:
                    t_w0.cancel()
                    t_ka0.cancel()
                    await asyncio.gather(t_ka0, t_w0, return_exceptions=True)
                await asyncio.sleep(3 * lifetime + horizon_extra)
                log.append(('end', loop.time(), toggles[1].is_on(), dict(shared['status'])))
                await cancel_all_others()
        finally:
            import random as _random
            peering.patching.patch_obj, peering.random = orig[0], _random
    loop.run(main(), ties=ties, max_steps=30000)
    return log


def h_two(prio0: int, prio1: int, start1: int, exit0_at: int, kill0: bool, t0: bool, t1: bool) -> bool:
    """
    pre: prio0 != prio1 and start1 >= 0 and exit0_at >= 1
    post: _ == True
    """
    vkopf.begin_path()
    lifetime = vkopf.cell('lifetime', 12)
    kill0 = vkopf.pin('kill0', kill0)
    if start1 > vkopf.cell('start_max', 3) or exit0_at > vkopf.cell('exit_max', 8):
        return True         # keep-alives are periodic: every further period inside an unbounded instant is another case split
    try:
        log = run_two(prio0, prio1, start1, exit0_at, kill0, lifetime, ties=[t0, t1])
    except (Deadlock, Diverged, Livelock):
        return vkopf.verdict(False)
    before = [e for e in log if e[0] == 'before_exit'][0]
    end = [e for e in log if e[0] == 'end'][0]
    ok = True
    # once both have seen each other (after one event round), exactly the higher-priority one is active
    _, t, on0, on1 = before
    if exit0_at >= 1:
        if prio0 > prio1 and not (on1 and not on0):
            ok = False
        if prio1 > prio0 and not (on0 and not on1):
            ok = False
    # after the other one exits or is killed, the survivor ends up active (within 3 lifetimes)
    if end[2]:
        ok = False
    if kill0:
        vkopf.witness('killed')
        if 'op0' in end[3]:
            ok = False            # expired records of others are cleaned up
    else:
        vkopf.witness('graceful')
    return vkopf.verdict(ok)


# --------------------------------------------------------------------------------------------------- H4: whole operators
def run_cluster(start_b, b_life, kill_b, lifetime=30, a_startup=0):
    """Two WHOLE operators (real spawn_tasks + run_tasks each, vkopf.opworld) on one fake cluster: A (priority 100) from t=0,
    B (priority 200) from start_b; B stops gracefully or is killed b_life seconds later; A is stopped at the end."""
    from vkopf import opworld
    loop = SymLoop()
    cluster = opworld.Cluster(loop)
    marks = {}

    async def main():
        a = opworld.Operator(cluster, 'A', priority=100, lifetime=lifetime, startup=a_startup)
        b = opworld.Operator(cluster, 'B', priority=200, lifetime=lifetime)
        ta = await a.start()
        if start_b > 0:
            await asyncio.sleep(start_b)
        tb = await b.start()
        await asyncio.sleep(b_life)
        marks['before_end'] = (loop.time(), len(cluster.requests), len(a.log), len(b.log))
        if kill_b:
            b.kill()
        else:
            b.stop()
        await asyncio.gather(tb, return_exceptions=True)
        marks['b_gone'] = loop.time()
        await asyncio.sleep(2 * lifetime + 15)
        marks['late'] = (loop.time(), len(cluster.requests), len(a.log))
        marks['peer_late'] = copy.deepcopy(cluster.peer.get('status') or {})
        a.stop()
        await asyncio.gather(ta, return_exceptions=True)
        marks['peer_end'] = copy.deepcopy(cluster.peer.get('status') or {})
        marks['left'] = len([t for t in asyncio.all_tasks() if t is not asyncio.current_task() and not t.done()])
        await cancel_all_others()
        return a, b
    with opworld.installed():
        a, b = loop.run(main(), max_steps=200_000)
    return cluster, a, b, marks


def h_cluster(sb: int, bl: int, kill_b: bool) -> bool:
    """
    pre: 0 <= sb <= 2 and 0 <= bl <= 1
    post: _ == True
    """
    vkopf.begin_path()
    kill_b = vkopf.pin('kill_b', kill_b)
    lifetime = vkopf.cell('lifetime', 30)
    start_b = vkopf.choose(sb, [0, 4, 40])            # together with A / while A handles / when A is in steady state (after a renewal)
    b_life = vkopf.choose(bl, [20, 70])               # B ends before / after its own first renewal
    try:
        cluster, a, b, marks = run_cluster(start_b, b_life, kill_b, lifetime)
    except (Deadlock, Diverged, Livelock):
        return vkopf.verdict(False)
    ok = True
    t_end_b, nreq_before, na_before, nb_before = marks['before_end']
    from vkopf.world import PLURAL as _PL
    reqs = cluster.requests

    def times(op, what):
        return [t for w, t in op.log if w == what]
    # 1. B (the higher priority) is the active one while it lives: its daemon runs, A's daemon has been stopped, and A neither
    #    lists nor watches the served resource once it has been paused (a few seconds after B announced itself)
    b_up = start_b + 3
    if not times(b, 'daemon_enter'):
        ok = False
    a_enters, a_exits = times(a, 'daemon_enter'), times(a, 'daemon_exit')
    if a_enters and a_enters[0] < b_up and not any(x <= b_up + 2 for x in a_exits):
        ok = False                                        # A's daemon was running and was not stopped when A got paused
    for (t, who, m, path) in reqs:
        if who == 'A' and _PL in path and m == 'GET' and b_up + 2 < t < t_end_b:
            ok = False                                    # a paused operator performs no list/watch
    if any(w in ('create', 'update') for w, t in a.log if b_up + 2 < t < t_end_b):
        ok = False                                        # ... and no change handling
    vkopf.witness('paused_while_peer_alive')
    # 2. after B has withdrawn (at once) or its keep-alive has expired (within a lifetime), A resumes: re-lists, daemon again
    resumed_by = marks['b_gone'] + (lifetime + 5 if kill_b else 5)
    a_lists_after = [t for (t, who, m, path) in reqs if who == 'A' and m == 'GET' and _PL in path and 'watch' not in path and t >= t_end_b]
    if not a_lists_after or a_lists_after[0] > resumed_by:
        ok = False
    if not any(t >= t_end_b for t in a_enters):
        ok = False
    # 3. no handler is executed twice because of the pause: the object was created once, and nothing changed since
    #    (two operators started at the very same instant both list the object before either has seen the other's record and
    #    both handle it: a start-up race that no pause causes -- outside the claim, the other clauses still apply)
    ncreate = len(times(a, 'create')) + len(times(b, 'create'))
    if (ncreate != 1 and start_b > 0) or ncreate > 2 or times(a, 'update') or times(b, 'update'):
        ok = False
    # 4. records: B's is gone (withdrawn, or cleaned up by A after it expired), A's is there until A exits, then gone too
    if 'B' in marks['peer_late'] or 'A' not in marks['peer_late']:
        ok = False
    if marks['peer_end']:
        ok = False
    if marks['left']:
        ok = False
    if kill_b:
        vkopf.witness('killed')
    else:
        vkopf.witness('graceful')
    return vkopf.verdict(ok)


def smt_keepalive(cell=None, replay=None):
    """E4: the keep-alive period, from the source of `keepalive`: the statements of its loop body that compute the sleep are
    translated (random.randint(5, 10) = an arbitrary integer in that range) and z3 decides, for EVERY lifetime >= 2:
    1 <= sleep <= lifetime - 1 (the record is renewed before it expires, and the API is not flooded: at least 1 s apart),
    and sleep >= lifetime - 10 (no needless renewals). Lifetimes 0 and 1 cannot be renewed in time by construction (stated)."""
    import ast as _ast
    import inspect
    import textwrap
    import time
    import types
    import z3
    from vkopf import astsmt
    from kopf._core.engines import peering as P
    tree = _ast.parse(textwrap.dedent(inspect.getsource(P.keepalive)))
    loops = [n for n in _ast.walk(tree) if isinstance(n, _ast.While)]
    if len(loops) != 1:
        return {'status': 'harness_error', 'message': 'keepalive no longer has exactly one loop'}
    assigns = [st for st in loops[0].body if isinstance(st, _ast.Assign)]
    sleeps = [n for n in _ast.walk(loops[0]) if isinstance(n, _ast.Call) and _ast.unparse(n.func) == 'asyncio.sleep']
    if len(sleeps) != 1 or len(sleeps[0].args) != 1:
        return {'status': 'harness_error', 'message': 'keepalive no longer has exactly one asyncio.sleep(x) in its loop'}

    def concrete(L, j):
        ns = {'settings': types.SimpleNamespace(peering=types.SimpleNamespace(lifetime=L)),
              'random': types.SimpleNamespace(randint=lambda a, b: j)}
        exec(compile(_ast.Module(body=assigns, type_ignores=[]), '<keepalive>', 'exec'), ns)
        return eval(compile(_ast.Expression(body=sleeps[0].args[0]), '<keepalive>', 'eval'), ns)
    if replay is not None:
        L, j = replay['lifetime'], replay['jitter']
        sl = concrete(L, j)
        return bool(1 <= sl <= L - 1 and sl >= L - 10)
    t0 = time.time()
    L, j = z3.Ints('lifetime jitter')
    side = []

    def randint(tr, a, b):
        side.extend([j >= a, j <= b])
        return j
    try:
        env = astsmt.translate_statements(assigns, {'settings.peering.lifetime': L}, {'random.randint': randint})
        tr = astsmt._Tr({})
        sleep = tr.ex(sleeps[0].args[0], env)
    except astsmt.Unsupported as e:
        return {'status': 'harness_error', 'message': f'keepalive arithmetic no longer translatable: {e}'}
    for (l_, j_) in ((60, 5), (60, 10), (7, 9), (2, 5), (11, 10), (3600, 7)):
        sv = z3.Solver()
        sv.add(L == l_, j == j_)
        if str(sv.check()) != 'sat' or sv.model().eval(sleep).as_long() != concrete(l_, j_):
            return {'status': 'harness_error', 'message': 'encoding of the keep-alive arithmetic disagrees with Python'}
    goals = {'renewed_in_time': z3.And(sleep >= 1, sleep <= L - 1), 'not_too_often': sleep >= L - 10}
    queries = 0
    for g, term in goals.items():
        s = z3.Solver()
        s.set('timeout', 60000)
        s.add(L >= 2, *side)
        s.add(z3.Not(term))
        r = str(s.check())
        queries += 1
        if r == 'sat':
            m = s.model()
            return {'status': 'counterexample', 'paths': queries, 'queries': queries, 'message': f'z3: sat for {g}',
                    'args': {'replay': {'lifetime': m.eval(L, model_completion=True).as_long(), 'jitter': m.eval(j, model_completion=True).as_long(), 'goal': g}}}
        if r != 'unsat':
            return {'status': 'inconclusive', 'message': f'z3 {r}', 'paths': queries, 'queries': queries}
    return {'status': 'confirmed', 'paths': queries, 'harness_calls': queries, 'nontrivial_paths': queries, 'queries': queries,
            'solver_s': round(time.time() - t0, 3), 'tags': {'smt_goal': queries}, 'message': 'z3: both negated goals unsat for every lifetime >= 2'}


def obligations():
    B = [False, True]
    obs = [Ob('smt_keepalive', {}, engine='smt', timeout=300)]
    # H4: two whole operators on one fake cluster (start offset x life of the higher-priority one from small grids, per exit kind)
    obs += split(Ob('h_cluster', {'lifetime': 30}, timeout=900, path_timeout=300, twins=['killed', 'graceful', 'paused_while_peer_alive']), kill_b=[False, True])
    obs += split(Ob('h_event', {}, timeout=900, twins=['paused', 'cleaned']), a_present=[True], b_present=[False], a_has_life=B, a_has_seen=B, own_present=B)
    obs += split(Ob('h_event', {}, timeout=900), a_present=[True], b_present=[True], a_has_life=[True], a_has_seen=[True],
                 b_has_life=[True], b_has_seen=B, own_present=[False])
    obs += split(Ob('h_event', {}, timeout=900), a_present=[False], b_present=[False], own_present=B)
    obs += split(Ob('h_event', {}, timeout=2400, tiers=('thorough',)), a_present=[True], b_present=[True], a_has_life=B, a_has_seen=B,
                 b_has_life=B, b_has_seen=B, own_present=B)
    obs.append(Ob('h_keepalive', {}, timeout=1500, twins=['withdrawn']))
    obs.append(Ob('h_keepalive', {'early': True}, timeout=1500, twins=['withdrawn_during_first_request']))
    obs += split(Ob('h_two', {'lifetime': 12}, timeout=900, path_timeout=300, tiers=('thorough',), twins=['killed', 'graceful']), kill0=[False, True])
    return obs
