"""C10 — timer schedule laws: no self-overlap, interval/sharp/idle/initial-delay timing.

Real code: daemons._timer (spawned through the real process_resource_event/spawn_daemons/_runner), aiotime.sleep,
progression/execution (outcome -> delays), processing.process_spawning_cause (idle reset) on SymLoop, T-symbolic:
progression.datetime/iso8601 rebound to the affine shim so that handler durations and delays stay symbolic.
"""
import asyncio
import logging

import kopf
import vkopf
from vkopf import shimdt
from vkopf.driver_api import Ob
from vkopf.symloop import SymLoop, Deadlock, Diverged, Livelock, cancel_all_others
from vkopf.world import World, base_body, PLURAL

from kopf._cogs.aiokits import aiotime
from kopf._core.actions import progression
from kopf._core.engines import daemons
from kopf._core.reactor import processing

logging.disable(logging.CRITICAL)
ENCODED = [daemons._timer, daemons._runner, daemons.spawn_daemons, aiotime.sleep, processing.process_spawning_cause,
           progression.State.delays, progression.HandlerState.with_outcome]
META = {
    'technique': 'bounded symbolic execution of the real kopf code (CrossHair 0.0.110 + z3): exhaustive path exploration per obligation cell, counterexamples replayed concretely; plus direct z3 queries whose formulas are generated from the source AST of the real functions (vkopf/astsmt.py; the sharp-timer grid arithmetic for every integer interval), validated against the real code on concrete vectors on every run',
    'bounds': 'interval cell in {None,1,2,3,5} (x % interval needs a concrete modulus), sharp cell, idle/initial_delay symbolic '
              'ints >= 0 (or absent, cell); 3 runs; handler durations symbolic unbounded ints; first run may fail with '
              'TemporaryError(delay symbolic) or an arbitrary error (backoff symbolic); one essential change at a symbolic instant. '
              'The idle-only timer (no interval) re-checks every idle seconds until a change: concrete idle=4 s, change within 10 s, symbolic first run.',
    'outside': 'microsecond quantisation of timedelta(seconds=float) and IEEE rounding; more than 3 runs; sync timers; '
               'callable initial_delay',
    'stubs': ['api.patch -> FakeServer', 'progression.datetime/iso8601 -> affine shim (validated against stdlib in selftest)'],
    'assumptions': ['stdlib datetime is an exact affine clock'],
}


def run_timer(interval, sharp, idle, initial_delay, durs, fail0, delay0, backoff, change_at=None, nruns=3, ties=()):
    w = World(base_body())
    loop = w.loop
    runs = []
    done = asyncio.Event
    state = {}
    kw = {}
    if interval is not None:
        kw['interval'] = interval
        if sharp:
            kw['sharp'] = True
    if idle is not None:
        kw['idle'] = idle
    if initial_delay is not None:
        kw['initial_delay'] = initial_delay
    if backoff is not None:
        kw['backoff'] = backoff

    @kopf.timer(PLURAL, id='t', registry=w.registry, **kw)
    async def t(**_):
        i = len(runs)
        s = loop.time()
        if state.get('active'):
            state['overlap'] = True
        state['active'] = True
        d = durs[i] if i < len(durs) else 0
        if d > 0:
            await asyncio.sleep(d)
        state['active'] = False
        runs.append((s, loop.time()))
        if len(runs) >= nruns:
            state['done'].set()
        if i == 0 and fail0 == 1:
            raise kopf.TemporaryError('boo', delay=delay0)
        if i == 0 and fail0 == 2:
            raise ValueError('boo')

    async def main():
        state['done'] = asyncio.Event()
        with shimdt.installed(progression):
            await w.process('ADDED')
            state['spawned'] = loop.time()
            changes = []
            if change_at is not None:
                async def changer():
                    if change_at > 0:
                        await asyncio.sleep(change_at)
                    w.server.write(lambda o: o['spec'].update(x=2))
                    changes.append(loop.time())
                    await w.process('MODIFIED')
                asyncio.create_task(changer())
            if interval is None:
                horizon = (change_at or 0) + 3 * (idle or 0) + sum(durs) + (initial_delay or 0) + (idle or 10)   # (no constant slack: it would split on 10/idle)
                try:
                    await asyncio.wait_for(state['done'].wait(), timeout=horizon)
                except asyncio.TimeoutError:
                    pass
            else:
                await state['done'].wait()
            await cancel_all_others()
        return changes
    changes = w.run(main(), ties=ties, max_steps=6000)
    return runs, state, changes


def h_laws(d0: int, d1: int, d2: int, fail0: int, delay0: int, backoff: int, idle: int, initial_delay: int, change_at: int) -> bool:
    """
    pre: d0 >= 0 and d1 >= 0 and d2 >= 0 and 0 <= fail0 <= 2
    pre: delay0 >= 1 and backoff >= 1 and idle >= 1 and initial_delay >= 0 and change_at >= 0
    post: _ == True
    """
    vkopf.begin_path()
    c = vkopf.cell()
    interval, sharp = c.get('interval'), c.get('sharp', False)
    use_idle, use_init, use_change = c.get('idle', False), c.get('initial_delay', False), c.get('change', False)
    if not c.get('fail', True) and fail0:
        return True
    d2 = 0                      # the duration of the last observed run is irrelevant (nothing follows it)
    if c.get('idle_value') is not None:
        idle = c['idle_value']  # an idle-only timer re-checks every `idle` seconds until the change: every further period of a
    if c.get('change_max') is not None and use_change and change_at > c['change_max']:
        return True             # symbolic wait is another case split, so this cell has a concrete idle time and a bounded change instant
    if c.get('short_runs'):
        d1 = 0
    if c.get('instant_runs'):
        d0 = d1 = 0
    try:
        runs, state, changes = run_timer(interval, sharp, idle if use_idle else None, initial_delay if use_init else None,
                                         [d0, d1, d2], fail0, delay0, backoff if c.get('backoff', True) else None,
                                         change_at=change_at if use_change else None, nruns=c.get('nruns', 3))
    except (Deadlock, Diverged, Livelock):
        vkopf.witness('stalled')
        return vkopf.verdict(False)
    ok = not state.get('overlap')
    t0 = state['spawned']
    actual = list(runs)
    if len(runs) < 3:
        runs = runs + [runs[-1]] * (3 - len(runs))      # idle-only timers run once per change
        if interval is not None and len(set(runs)) < c.get('nruns', 3):
            ok = False
    (s0, e0), (s1, e1), (s2, e2) = runs[:3]
    last_change = 0
    # first run not earlier than the initial delay, nor within the idle time after the last essential change
    if use_init and s0 < t0 + initial_delay:
        ok = False
    prev = None
    for i, (s, e) in enumerate(actual[:c.get('nruns', 3)]):
        if prev is not None and s < prev[1]:
            ok = False                                    # never overlaps with itself
        if use_idle:
            lc = 0
            for ch in changes:
                if ch < s:          # a change at the very instant of the start is a tie
                    lc = ch
            if s < lc + idle:
                ok = False                                # never within the idle time after the last essential change
        prev = (s, e)
    # schedule after a successful / failed run (when idling/changes do not interfere)
    if not use_idle and not use_change:
        if fail0 == 1:
            ok = ok and s1 == e0 + delay0
            vkopf.witness('after_temporary')
        elif fail0 == 2:
            bo = backoff if c.get('backoff', True) else 60
            ok = ok and s1 == e0 + bo
            vkopf.witness('after_error')
        elif interval is not None and sharp:
            # on the grid counted from the start of the previous run: first grid point strictly after the end
            ok = ok and s1 > e0 - 0 and (s1 - s0) % interval == 0 and s1 - e0 <= interval and (s1 >= e0)
            vkopf.witness('sharp')
        elif interval is not None:
            ok = ok and s1 == e0 + interval
            vkopf.witness('interval')
        if interval is not None and sharp:
            ok = ok and (s2 - s1) % interval == 0 and s2 >= e1 and s2 - e1 <= interval
        elif interval is not None:
            ok = ok and s2 == e1 + interval
        if not use_init and s0 != t0:
            ok = False
        if use_init and s0 != t0 + initial_delay:
            ok = False
    elif use_idle and interval is not None and not sharp and not use_change and fail0 == 0:
        ok = ok and s1 == max(e0 + interval, 0 + idle) and s0 == max(t0 + (initial_delay if use_init else 0), idle)
        vkopf.witness('idle_interval')
    return vkopf.verdict(ok)


def smt_sharp_grid(cell=None, replay=None):
    """E4: the sharp-timer arithmetic for EVERY integer interval (the CrossHair cells pin the interval to 1, 2, 3, 5 because
    `x % interval` with two symbolic operands is non-linear there). The two assignments of the `sharp` branch of the real
    `_timer` are translated from the current source; z3 decides, for all integers interval >= 1 and now >= started:
    0 < remaining_delay <= interval, and started + k*interval == now + remaining_delay for some k (the next start is on the grid).
    Together: it is the FIRST grid point after `now` (two grid points differ by at least one interval)."""
    import time
    import z3
    from vkopf import astsmt
    if replay is not None:
        # concrete replay: the real statements executed by Python
        import ast as _ast
        import types
        from vkopf import astsmt as _a
        body = _a.find_branch(daemons._timer, lambda t: 'sharp' in t and 'interval' in t)
        code = compile(_ast.Module(body=[st for st in body if st.__class__.__name__ == 'Assign'], type_ignores=[]), '<sharp>', 'exec')
        I, d = replay['interval'], replay['passed']
        ns = {'clock': lambda: d, 'started': 0, 'handler': types.SimpleNamespace(interval=I)}
        exec(code, ns)
        r = ns['remaining_delay']
        return bool(0 < r <= I and (d + r) % I == 0)
    t0 = time.time()
    try:
        body = astsmt.find_branch(daemons._timer, lambda t: 'sharp' in t and 'interval' in t)
        assigns = [st for st in body if st.__class__.__name__ == 'Assign']
        now, started, interval = z3.Ints('now started interval')
        env = astsmt.translate_statements(assigns, {'started': started, 'handler.interval': interval}, {'clock': lambda tr: now})
        remaining = env['remaining_delay']
    except astsmt.Unsupported as e:
        return {'status': 'harness_error', 'message': f'the sharp branch of _timer is no longer translatable: {e}'}
    # translation validation: the same statements executed by Python itself on concrete vectors
    import ast as _ast
    import types
    code = compile(_ast.Module(body=assigns, type_ignores=[]), '<sharp branch of _timer>', 'exec')
    for (n_, s_, i_) in ((17, 3, 5), (10, 0, 5), (7, 7, 1), (1000, 1, 7), (12, 2, 10)):
        ns = {'clock': lambda n_=n_: n_, 'started': s_, 'handler': types.SimpleNamespace(interval=i_)}
        exec(code, ns)
        sv = z3.Solver()
        sv.add(now == n_, started == s_, interval == i_)
        if str(sv.check()) != 'sat' or sv.model().eval(remaining).as_long() != ns['remaining_delay']:
            return {'status': 'harness_error', 'message': 'encoding of the sharp branch disagrees with Python on a concrete vector'}
    goals = {'range': z3.And(remaining > 0, remaining <= interval), 'on_grid': (now + remaining - started) % interval == 0}
    queries = 0
    for g, term in goals.items():
        s = z3.Solver()
        s.set('timeout', 60000)
        s.add(interval >= 1, now >= started, started >= 0, z3.Not(term))
        r = str(s.check())
        queries += 1
        if r == 'sat':
            m = s.model()
            return {'status': 'counterexample', 'paths': queries, 'queries': queries, 'message': f'z3: sat for {g}',
                    'args': {'replay': {'interval': m.eval(interval, model_completion=True).as_long(),
                                        'passed': m.eval(now - started, model_completion=True).as_long(), 'goal': g}}}
        if r != 'unsat':
            return {'status': 'inconclusive', 'message': f'z3 {r} on {g}', 'paths': queries, 'queries': queries}
    return {'status': 'confirmed', 'paths': queries, 'harness_calls': queries, 'nontrivial_paths': queries, 'queries': queries,
            'solver_s': round(time.time() - t0, 3), 'tags': {'smt_goal': queries},
            'message': 'z3: both negated goals unsat for all integer intervals >= 1 (non-linear integer arithmetic)'}


def obligations():
    obs = [Ob('smt_sharp_grid', {}, engine='smt', timeout=300)]
    for interval in (5, 1):
        for sharp in (False, True):
            q = interval == 5
            obs.append(Ob('h_laws', {'interval': interval, 'sharp': sharp}, timeout=2400, path_timeout=200,
                          tiers=('quick', 'thorough') if q else ('thorough',),
                          twins=(['sharp'] if sharp else ['interval', 'after_temporary', 'after_error']) if q else []))
    obs.append(Ob('h_laws', {'interval': 3, 'sharp': False, 'initial_delay': True, 'fail': False}, timeout=2400, path_timeout=200))
    obs.append(Ob('h_laws', {'interval': 3, 'sharp': False, 'idle': True, 'fail': False}, timeout=2400, path_timeout=200,
                  twins=['idle_interval']))
    obs.append(Ob('h_laws', {'interval': 3, 'sharp': False, 'idle': True, 'change': True, 'fail': False, 'short_runs': True}, timeout=1500,
                  path_timeout=200))
    obs.append(Ob('h_laws', {'interval': 3, 'sharp': False, 'idle': True, 'change': True, 'fail': False}, timeout=3400,
                  path_timeout=200, tiers=('thorough',)))
    obs.append(Ob('h_laws', {'interval': 2, 'sharp': True, 'idle': True, 'change': True, 'fail': False}, timeout=3400,
                  path_timeout=200, tiers=('thorough',)))
    obs.append(Ob('h_laws', {'interval': None, 'idle': True, 'change': True, 'fail': False, 'nruns': 2, 'idle_value': 4, 'change_max': 10,
                             'short_runs': True}, timeout=900, path_timeout=200))
    return obs
