"""C04 — change detection is exact: own writes invisible, diffs sound and complete.

Real code: diffs.diff_iter/reduce_iter, dicts.resolve, handlers.ResourceHandler.adjust_cause (via reduce),
diffbase.*.build/fetch/store, progress.*.clear/store/purge/touch, conventions.StorageKeyMarkingConvention.
Objects are symbolic JSON *templates*: concrete key alphabet, symbolic shape selectors and symbolic leaves.
"""
import copy
import json
import logging

import vkopf
from vkopf.driver_api import Ob, split, sample
from vkopf.world import rfc7386, base_body

from kopf._cogs.configs import conventions, diffbase, progress
from kopf._cogs.structs import bodies, dicts, diffs, patches

logging.disable(logging.CRITICAL)
from kopf._core.intents import handlers as _handlers
from kopf._core.reactor import processing as _processing
ENCODED = [diffs.diff_iter, diffs.reduce_iter, dicts.resolve, dicts.remove, dicts.ensure, dicts.cherrypick,
           diffbase.DiffBaseStorage.build, diffbase.AnnotationsDiffBaseStorage, diffbase.StatusDiffBaseStorage,
           diffbase.MultiDiffBaseStorage, progress.AnnotationsProgressStorage, progress.StatusProgressStorage,
           progress.SmartProgressStorage, conventions.StorageKeyMarkingConvention, conventions.StorageStanzaCleaner,
           _handlers.ResourceHandler.adjust_cause, _processing.process_resource_event]
META = {
    'technique': 'bounded symbolic execution of the real kopf code (CrossHair 0.0.110 + z3): exhaustive path exploration per obligation cell, counterexamples replayed concretely; plus direct z3 queries whose formulas are generated from the source AST of the real functions (vkopf/astsmt.py; the kopf-managed marker rule for every prefix), validated against the real code on concrete vectors on every run',
    'bounds': 'H6b (E4, smt_marker): the marker rule (written iff the prefix is not recognised by itself) for EVERY prefix of 1..253 characters over [a-z0-9.-], from the AST of _store_marker/_detect_marked_prefixes. H5 (field view): a handled object (stored diff-base + finished progress) then one of 5 edits, an update handler on one of 4 fields, through one real processing step. Templates {a: X, b: Y}; X in absent|leaf|{c: leaf}|{c: leaf, d: leaf} (thorough) ; Y in absent|leaf; leaf in '
              'null|int(symbolic, unbounded)|[int]|{}|str(2 concrete values); field paths up to length 3; storage cells: '
              'annotations/status/smart progress x annotations/status/multi diff-base x v1 on/off; prefixes: 5 concrete + '
              'symbolic prefix of length<=6 over [a-z.] for the marker logic; handler ids: concrete short ids + one symbolic id char',
    'outside': 'unicode, deeper nesting, floats; JSON text codec itself (json.dumps/loads are C code, executed natively on the '
               'concrete skeleton); bool vs int leaves of equal numeric value (known finding F7)',
    'stubs': [],
    'assumptions': ['Kubernetes stores what RFC 7386 yields for a merge-patch (independent reference in vkopf.world)'],
}

STRS = ['s', 't']


def leaf(kind, val):
    """kind: 0 null, 1 int (symbolic val), 2 list [val], 3 {}, 4 str."""
    if kind == 0:
        return None
    if kind == 1:
        return val
    if kind == 2:
        return [val]
    if kind == 3:
        return {}
    return STRS[0] if val % 2 == 0 else STRS[1]


def tree(xs, xk, xv, xk2, xv2, ys, yk, yv):
    """xs: 0 absent, 1 leaf, 2 {c: leaf}, 3 {c: leaf, d: leaf}; ys: 0 absent, 1 leaf."""
    d = {}
    if xs == 1:
        d['a'] = leaf(xk, xv)
    elif xs == 2:
        d['a'] = {'c': leaf(xk, xv)}
    elif xs == 3:
        d['a'] = {'c': leaf(xk, xv), 'd': leaf(xk2, xv2)}
    if ys == 1:
        d['b'] = leaf(yk, yv)
    return d


def strip_nulls(x):
    """JSON equality modulo null == absent (a merge-patch cannot express the difference)."""
    if isinstance(x, dict):
        return {k: strip_nulls(v) for k, v in x.items() if v is not None}
    return x


def apply_diff(a, d):
    """Independent applier of kopf diff items (add/change/remove by path)."""
    out = copy.deepcopy(a)
    for op, path, old, new in d:
        if not path:
            out = copy.deepcopy(new)
            continue
        if not isinstance(out, dict):
            out = {}
        cur = out
        for k in path[:-1]:
            if not isinstance(cur.get(k), dict):
                cur[k] = {}
            cur = cur[k]
        if str(op.value if hasattr(op, 'value') else op) == 'remove':
            cur.pop(path[-1], None)
        else:
            cur[path[-1]] = copy.deepcopy(new)
    return out


def _mk_pair(axs, axk, axv, axk2, axv2, ays, ayk, ayv, bxs, bxk, bxv, bxk2, bxv2, bys, byk, byv):
    a = tree(axs, axk, axv, axk2, axv2, ays, ayk, ayv)
    b = tree(bxs, bxk, bxv, bxk2, bxv2, bys, byk, byv)
    return a, b


def h_diff(axk: int, axv: int, axk2: int, axv2: int, ays: int, ayk: int, ayv: int,
           bxk: int, bxv: int, bxk2: int, bxv2: int, bys: int, byk: int, byv: int) -> bool:
    """
    pre: 0 <= axk <= 4 and 0 <= axk2 <= 4 and 0 <= ayk <= 4 and 0 <= bxk <= 4 and 0 <= bxk2 <= 4 and 0 <= byk <= 4
    pre: 0 <= ays <= 1 and 0 <= bys <= 1
    post: _ == True
    """
    vkopf.begin_path()
    c = vkopf.cell()
    ays, bys, axk, bxk = vkopf.pin('ays', ays), vkopf.pin('bys', bys), vkopf.pin('axk', axk), vkopf.pin('bxk', bxk)
    a, b = _mk_pair(c['axs'], axk, axv, axk2, axv2, ays, ayk, ayv, c['bxs'], bxk, bxv, bxk2, bxv2, bys, byk, byv)
    d = diffs.diff(a, b)
    ok = True
    # soundness: applying diff to old yields new
    if strip_nulls(apply_diff(a, d)) != strip_nulls(b):
        ok = False
    # completeness: empty only if nothing differs
    if not d:
        vkopf.witness('empty_diff')
        if strip_nulls(a) != strip_nulls(b):
            ok = False
    else:
        vkopf.witness('nonempty_diff')
        if strip_nulls(a) == strip_nulls(b) and a == b:
            ok = False
    # narrowed to a field: reduce(diff) and the narrowed old/new describe the same transformation
    for p in c.get('paths', [['a'], ['a', 'c'], ['b'], ['a', 'c', 'z']]):
        p = tuple(p)
        old_p = dicts.resolve(a, p, None)
        new_p = dicts.resolve(b, p, None)
        red = diffs.reduce(d, p)
        if strip_nulls(apply_diff(old_p, red)) != strip_nulls(new_p):
            ok = False
        if not red and strip_nulls(old_p) != strip_nulls(new_p):
            ok = False
    return vkopf.verdict(ok)


def h_diff_boolint(v: int, w: bool) -> bool:
    """
    pre: 0 <= v <= 1
    post: _ == True
    """
    vkopf.begin_path()
    d = diffs.diff({'spec': {'x': v}}, {'spec': {'x': w}})
    # JSON 1 and true are different values: the diff must not be empty
    return vkopf.verdict(bool(d))


# ------------------------------------------------------------------ storages and the essence
PREFIXES = ['kopf.zalando.org', 'my.op.io', 'kopf.dev', 'sub.kopf.zalando.org', 'a']


def make_storages(c, prefix=None):
    prefix = prefix if prefix is not None else c.get('prefix', 'kopf.zalando.org')
    v1 = c.get('v1', True)
    pk, dk = c.get('progress', 'annotations'), c.get('diffbase', 'annotations')
    if pk == 'annotations':
        ps = progress.AnnotationsProgressStorage(prefix=prefix, v1=v1)
    elif pk == 'status':
        ps = progress.StatusProgressStorage()
    else:
        ps = progress.SmartProgressStorage(prefix=prefix, v1=v1)
    if dk == 'annotations':
        ds = diffbase.AnnotationsDiffBaseStorage(prefix=prefix, v1=v1)
    elif dk == 'status':
        ds = diffbase.StatusDiffBaseStorage()
    else:
        ds = diffbase.MultiDiffBaseStorage([diffbase.AnnotationsDiffBaseStorage(prefix=prefix, v1=v1),
                                            diffbase.StatusDiffBaseStorage()])
    return ps, ds


def essence(ps, ds, raw, extra_fields=None):
    e = ds.build(body=bodies.Body(raw), extra_fields=extra_fields)
    return ps.clear(essence=e)


def sym_body(has_ann: bool, has_lbl: bool, has_status: bool, spec_v: int, user_ann_v: int):
    raw = base_body(spec={'x': spec_v, 'sub': {'y': 1}})
    if has_ann:
        raw['metadata']['annotations'] = {'user/note': 'n%d' % (user_ann_v % 3) if isinstance(user_ann_v, int) and not hasattr(user_ann_v, 'var') else 'n'}
    if has_lbl:
        raw['metadata']['labels'] = {'app': 'x'}
    if has_status:
        raw['status'] = {'phase': 'Ready'}
    return raw


IDS = ['fn', 'a/b', 'x' * 70, 'f/spec.field']


def h_own_writes(has_ann: bool, has_lbl: bool, has_status: bool, spec_v: int, which: int, idx: int,
                 retries: int, success: bool, touch_v: int, prior: bool) -> bool:
    """
    pre: 0 <= which <= 5 and 0 <= idx <= 3 and retries >= 0
    post: _ == True
    """
    vkopf.begin_path()
    c = vkopf.cell()
    which, idx = vkopf.pin('which', which), vkopf.pin('idx', idx)
    has_lbl, has_status, prior = vkopf.pin('has_lbl', has_lbl), vkopf.pin('has_status', has_status), vkopf.pin('prior', prior)
    spec_v, retries, touch_v = vkopf.choose(spec_v, [1, 2]), vkopf.choose(retries, [0, 3]), vkopf.choose(touch_v, [-1, 0, 1])
    ps, ds = make_storages(c)
    raw = sym_body(has_ann, has_lbl, has_status, spec_v, 0)
    hid = IDS[idx]
    if prior:   # an earlier record of another handler and an earlier diff-base are already on the object
        p0 = patches.Patch()
        ps.store(key='other', record=progress.ProgressRecord(started='2020-01-01T00:00:00', retries=1), body=bodies.Body(raw), patch=p0)
        ds.store(body=bodies.Body(raw), patch=p0, essence={'spec': {'x': 0}})
        raw = rfc7386(raw, dict(p0))
    body = bodies.Body(raw)
    e0 = essence(ps, ds, raw)
    patch = patches.Patch()
    rec = progress.ProgressRecord(started='2020-01-01T00:00:00', retries=retries, success=success, failure=False,
                                  message=None, delayed=None, stopped=None, purpose='create', subrefs=None)
    if which == 0:
        ps.store(key=hid, record=rec, body=body, patch=patch)
    elif which == 1:
        ps.store(key=hid, record=rec, body=body, patch=patch)
        raw2 = rfc7386(raw, dict(patch))
        patch = patches.Patch()
        ps.purge(key=hid, body=bodies.Body(raw2), patch=patch)
        raw = raw2
    elif which == 2:
        ps.touch(body=body, patch=patch, value='t%d' % (touch_v % 2) if touch_v >= 0 else None)
    elif which == 3:
        ds.store(body=body, patch=patch, essence=e0)
    elif which == 4:
        ds.store(body=body, patch=patch, essence={'spec': {'x': spec_v + 1}, 'metadata': {'annotations': {'user/note': 'old'}}})
    else:
        ps.store(key=hid, record=rec, body=body, patch=patch)
        ds.store(body=body, patch=patch, essence=e0)
        ps.touch(body=body, patch=patch, value='now')
    after = rfc7386(raw, dict(patch))
    e1 = essence(ps, ds, after)
    if patch:
        vkopf.witness('patched')
    return vkopf.verdict(e1 == e0)


def h_noise_and_signal(has_ann: bool, has_lbl: bool, has_status: bool, spec_v: int, what: int, nv: int) -> bool:
    """
    pre: 0 <= what <= 13
    post: _ == True
    """
    vkopf.begin_path()
    c = vkopf.cell()
    what = vkopf.pin('what', what)
    spec_v, nv = vkopf.choose(spec_v, [1, 2]), vkopf.choose(nv, [-1, 0, 7])
    ps, ds = make_storages(c)
    raw = sym_body(has_ann, has_lbl, has_status, spec_v, 0)
    e0 = essence(ps, ds, raw)
    new = copy.deepcopy(raw)
    m = new['metadata']
    noise = True
    if what == 0:
        new.setdefault('status', {})['phase'] = 'p%d' % (nv % 2) if nv != 7 else 'Ready!'
    elif what == 1:
        m['resourceVersion'] = '11'
    elif what == 2:
        m['generation'] = nv
    elif what == 3:
        m['managedFields'] = [{'manager': 'kubectl'}]
    elif what == 4:
        m['deletionTimestamp'] = '2020-01-01T00:00:00Z'
    elif what == 5:
        m['finalizers'] = ['x/y']
    elif what == 6:
        m['ownerReferences'] = [{'kind': 'Deployment', 'name': 'd'}]
    elif what == 7:
        m.setdefault('annotations', {})['kubectl.kubernetes.io/last-applied-configuration'] = '{}'
    elif what == 8:
        m['creationTimestamp'] = '2020-01-01T00:00:00Z'
        m['selfLink'] = '/x'
    else:
        noise = False
        if what == 9:
            new['spec']['x'] = spec_v + 1 if nv >= 0 else spec_v - 1
        elif what == 10:
            new['spec']['sub']['y'] = 2
        elif what == 11:
            m.setdefault('labels', {})['tier'] = 'db'
        elif what == 12:
            m.setdefault('annotations', {})['example.com/owner'] = 'me'
        else:
            new['data'] = {'k': 'v'}
    e1 = essence(ps, ds, new)
    if noise:
        vkopf.witness('noise')
        return vkopf.verdict(e1 == e0)
    vkopf.witness('signal')
    return vkopf.verdict(e1 != e0 and bool(diffs.diff(e0, e1)))


def h_other_operator(p0: int, p1: int, has_ann: bool, which: int, spec_v: int) -> bool:
    """
    pre: 0 <= p0 <= 4 and 0 <= p1 <= 4 and p0 != p1
    pre: 0 <= which <= 2
    post: _ == True
    """
    vkopf.begin_path()
    c = vkopf.cell()
    spec_v = vkopf.choose(spec_v, [1, 2])
    mine, theirs = PREFIXES[p0], PREFIXES[p1]
    # region of the fixed finding F5 (foreign prefix "kopf.*" other than kopf.zalando.org) stays covered
    if theirs.startswith('kopf.') and theirs != 'kopf.zalando.org' and not theirs.endswith('.kopf.zalando.org'):
        vkopf.witness('kopf_dot_prefix')
    ps, ds = make_storages(c, prefix=mine)
    ps2, ds2 = make_storages(c, prefix=theirs)
    raw = sym_body(has_ann, False, False, spec_v, 0)
    e0 = essence(ps, ds, raw)
    patch = patches.Patch()
    body = bodies.Body(raw)
    if which == 0:
        ps2.store(key='fn', record=progress.ProgressRecord(started='2020-01-01T00:00:00', retries=1), body=body, patch=patch)
    elif which == 1:
        ds2.store(body=body, patch=patch, essence={'spec': {'x': 0}})
    else:
        ps2.touch(body=body, patch=patch, value='now')
    after = rfc7386(raw, dict(patch))
    e1 = essence(ps, ds, after)
    vkopf.witness('foreign_write')
    return vkopf.verdict(e1 == e0)


# ------------------------------------------------------------------------------ H6b (E4): the marker rule for EVERY prefix
def smt_marker(cell=None, replay=None):
    """E4: `_store_marker` writes the kopf-managed marker for exactly those prefixes that `_detect_marked_prefixes` would not
    recognise by the prefix alone -- for EVERY prefix string (length <= 253), not the five representatives of h_other_operator.
    Both predicates are translated from the CURRENT source of the two methods (`prefix in KNOWN`, `prefix.endswith('.'+p)`);
    z3 decides their equivalence; a counterexample prefix is replayed through the real storages (region of the fixed F5)."""
    import time
    import z3
    from vkopf import astsmt
    from kopf._cogs.configs import conventions
    M = conventions.StorageKeyMarkingConvention
    known_prefixes = getattr(M, '_StorageKeyMarkingConvention__KNOWN_PREFIXES')
    known_markers = getattr(M, '_StorageKeyMarkingConvention__KNOWN_MARKERS')
    if replay is not None:
        # concrete replay: another operator with this prefix writes its progress; is that write invisible to us?
        mine, theirs = 'my.op.io', replay['prefix']
        import warnings
        with warnings.catch_warnings():
            warnings.simplefilter('ignore')
            ps, ds = make_storages({}, prefix=mine)
            ps2, ds2 = make_storages({}, prefix=theirs)
        raw = sym_body(True, False, False, 1, 0)
        e0 = essence(ps, ds, raw)
        patch = patches.Patch()
        ps2.store(key='fn', record=progress.ProgressRecord(started='2020-01-01T00:00:00', retries=1), body=bodies.Body(raw), patch=patch)
        after = rfc7386(raw, dict(patch))
        return essence(ps, ds, after) == e0
    t0 = time.time()
    try:
        prefix = astsmt.BaseStr('prefix')
        env = {'prefix': prefix, 'self.__KNOWN_PREFIXES': known_prefixes, 'self.__KNOWN_MARKERS': known_markers}
        import ast as _ast
        import inspect
        import textwrap
        tree = _ast.parse(textwrap.dedent(inspect.getsource(M._store_marker)))
        # _store_marker: the straight-line assignments, then the guard of the first `if` = "the marker is written"
        assigns = [st for st in tree.body[0].body if isinstance(st, _ast.Assign)]
        env_after = astsmt.translate_statements(assigns, env)
        first_if = [st for st in tree.body[0].body if isinstance(st, _ast.If)][0]
        tr0 = astsmt._Tr({})
        store_known = z3.Not(tr0.truth(tr0.ex(first_if.test, env_after)))
        # _detect_marked_prefixes: the tests of the if/elif chain that do not look at the name
        tree2 = _ast.parse(textwrap.dedent(inspect.getsource(M._detect_marked_prefixes)))
        tests = [n.test for n in _ast.walk(tree2) if isinstance(n, _ast.If)]
        tr = astsmt._Tr({})
        by_prefix = [tr.truth(tr.ex(t, env)) for t in tests if 'name' not in _ast.unparse(t)]
        if len(tests) != 3 or len(by_prefix) != 2:
            raise astsmt.Unsupported(f'unexpected shape of _detect_marked_prefixes: {len(tests)} tests')
        detect_known = z3.Or(*by_prefix)
    except astsmt.Unsupported as e:
        return {'status': 'harness_error', 'message': f'marker logic no longer translatable: {e}'}
    # translation validation on concrete prefixes: the real methods vs. the terms
    m = M()
    for pfx in ('kopf.zalando.org', 'kopf.dev', 'x.kopf.zalando.org', 'my.op.io', 'kopf.zalando.org.evil', 'zalando.org'):
        real_detect = pfx in m._detect_marked_prefixes([f'{pfx}/anything'])
        patch = patches.Patch()
        m._store_marker(prefix=pfx, patch=patch, body=bodies.Body({}))
        real_store_known = not patch
        sv = z3.Solver()
        sv.add(*prefix.bind(pfx))
        if str(sv.check()) != 'sat' or bool(sv.model().eval(detect_known, model_completion=True)) != real_detect or \
                bool(sv.model().eval(store_known, model_completion=True)) != real_store_known:
            return {'status': 'harness_error', 'message': f'encoding of the marker logic disagrees with the real methods for {pfx!r}'}
    s = z3.Solver()
    s.set('timeout', 60000)
    s.add(prefix.length >= 1, prefix.length <= 253)
    s.add(*prefix.instances(lambda a, c: z3.Or(z3.And(c >= 97, c <= 122), z3.And(c >= 48, c <= 57), c == 45, c == 46)))
    s.add(store_known != detect_known)
    r = str(s.check())
    out = {'paths': 1, 'harness_calls': 1, 'nontrivial_paths': 1, 'queries': 1, 'solver_s': round(time.time() - t0, 3), 'tags': {'smt_goal': 1}}
    if r == 'unsat':
        out.update(status='confirmed', message='z3: unsat -- marker written iff the prefix is not recognised by itself, for every prefix of 1..253 characters')
    elif r == 'sat':
        out.update(status='counterexample', message='z3: sat', args={'replay': {'prefix': prefix.concrete(s.model(), default='a')}})
    else:
        out.update(status='inconclusive', message=f'z3: {r}')
    return out


# ------------------------------------------------------------------------------ H5 the view narrowed to a handler's field
# (field='metadata' as a whole is left out: a handler's field is an 'extra field' of the essence, so it would pull the system
# metadata -- resourceVersion and all -- into every comparison; that is documented behaviour of a degenerate declaration)
FIELDS = ['spec', 'metadata.annotations', 'metadata.labels', 'spec.sub', 'metadata.ownerReferences', 'status.phase']


def h_field_view(has_lbl: bool, has_status: bool, spec_v: int, what: int, fi: int) -> bool:
    """
    pre: 0 <= what <= 6 and 0 <= fi <= 5
    post: _ == True
    """
    return field_view_impl(has_lbl, has_status, spec_v, what, fi)


def field_view_impl(has_lbl, has_status, spec_v, what, fi):
    # (contract-free: shared with C15 h_field_pipeline)
    from vkopf.world import World, PLURAL
    import kopf
    vkopf.begin_path()
    c = vkopf.cell()
    what, fi = vkopf.pin('what', what), vkopf.pin('fi', fi)
    spec_v = vkopf.choose(spec_v, [1, 2])
    ps, ds = make_storages(c)
    raw = sym_body(True, has_lbl, has_status, spec_v, 0)
    raw['metadata']['finalizers'] = ['foreign/fin']
    # the object was handled before: its last-handled state and a finished handler's progress are stored on it, through the
    # real storages (so the body differs from its essence by exactly the framework's own data)
    p0 = patches.Patch()
    # (a handler's field is an "extra field" of the essence: system metadata and status fields are compared only when a
    # handler asks for them -- docs/kwargs.rst, diffbase.build)
    extra = [tuple(FIELDS[fi].split('.'))]
    ds.store(body=bodies.Body(raw), patch=p0, essence=essence(ps, ds, raw, extra_fields=extra))
    ps.store(key='earlier', record=progress.ProgressRecord(started='2020-01-01T00:00:00', retries=1, success=True, failure=False,
                                                           stopped='2020-01-01T00:00:01', purpose='create'), body=bodies.Body(raw), patch=p0)
    raw = rfc7386(raw, dict(p0))
    before = essence(ps, ds, raw, extra_fields=extra)
    # ... then somebody edits it
    m = raw['metadata']
    if what == 0:
        raw['spec']['x'] = spec_v + 1
    elif what == 1:
        m.setdefault('annotations', {})['user/note'] = 'edited'
    elif what == 2:
        m.setdefault('labels', {})['tier'] = 'db'
    elif what == 3:
        m.setdefault('annotations', {})['user/extra'] = 'added'
        raw['spec']['sub'] = {'y': 2, 'z': 3}
    elif what == 4:
        m['annotations'].pop('user/note', None)
        raw['spec']['sub'].pop('y')
    elif what == 5:
        m['ownerReferences'] = [{'kind': 'Deployment', 'name': 'adopter', 'uid': 'o1'}]      # adopted by somebody
    else:
        raw.setdefault('status', {})['phase'] = 'Failed'
    after = essence(ps, ds, raw, extra_fields=extra)
    w = World(raw)
    w.settings.persistence.progress_storage, w.settings.persistence.diffbase_storage = ps, ds
    seen = []

    @kopf.on.update(PLURAL, id='hf', registry=w.registry, field=FIELDS[fi])
    async def hf(old, new, diff, **kw):
        seen.append((copy.deepcopy(old), copy.deepcopy(new), [(str(getattr(o, 'value', o)), tuple(pth), a, b) for (o, pth, a, b) in diff]))

    async def main():
        await w.process('MODIFIED')
    w.run(main())

    def narrow(e, path):
        for k in path.split('.'):
            if not isinstance(e, dict) or k not in e:
                return None
            e = e[k]
        return e
    want_old, want_new = narrow(before, FIELDS[fi]), narrow(after, FIELDS[fi])
    ok = True
    if want_old != want_new:
        # the field is affected: the handler runs, and sees exactly the essential old and new values of its field
        if len(seen) != 1:
            ok = False
        else:
            old, new, diff = seen[0]
            vkopf.witness('field_view')
            if old != want_old or new != want_new:
                ok = False                      # (in particular nothing of the framework's own data shows up in it)
            if apply_diff(old, diff) != new:
                ok = False                      # applying diff to old yields new
            if not diff:
                ok = False
    elif seen:
        ok = False                              # an unaffected field does not select the handler
    return vkopf.verdict(ok)


def obligations():
    obs = [Ob('smt_marker', {}, engine='smt', timeout=300)]
    # diffs: quick = a sample of shape cells (split further by the presence of the second key), thorough = all shapes
    for (axs, bxs) in ((1, 2), (2, 2), (2, 1)):
        obs += split(Ob('h_diff', {'axs': axs, 'bxs': bxs}, tiers=('quick',), timeout=600), ays=[0, 1], bys=[0, 1])
    obs.append(Ob('h_diff', {'axs': 2, 'bxs': 2}, tiers=('quick', 'thorough'), timeout=300, twins=['empty_diff'], main=False))
    for axs in (0, 1, 2):
        for bxs in (0, 1, 2):
            obs.append(Ob('h_diff', {'axs': axs, 'bxs': bxs}, tiers=('thorough',), timeout=1200))
    for i, (axs, bxs) in enumerate(((3, 3), (3, 2), (2, 3), (3, 1), (1, 3), (3, 0), (0, 3))):
        obs += sample(Ob('h_diff', {'axs': axs, 'bxs': bxs, 'paths': [['a'], ['a', 'c'], ['a', 'd'], ['b']]}, tiers=('thorough',), timeout=600),
                      4, seed=50 + i, ays=[0, 1], bys=[0, 1], axk=[0, 1, 2, 3, 4])
    obs.append(Ob('h_diff_boolint', {}, expect='counterexample', finding='F7', timeout=60))
    combos = [('annotations', 'annotations', True, 'kopf.zalando.org'), ('annotations', 'annotations', False, 'my.op.io'),
              ('status', 'status', True, 'kopf.zalando.org'), ('smart', 'multi', True, 'kopf.zalando.org'),
              ('smart', 'multi', True, 'kopf.dev'), ('annotations', 'status', False, 'kopf.dev'),
              ('status', 'annotations', True, 'my.op.io'), ('smart', 'annotations', False, 'a')]
    for i, (pk, dk, v1, prefix) in enumerate(combos):
        cell = {'progress': pk, 'diffbase': dk, 'v1': v1, 'prefix': prefix}
        quick = i in (0, 4)
        if quick:
            for which in range(6):
                obs.append(Ob('h_own_writes', dict(cell, pin={'which': which, 'idx': which % 4, 'has_lbl': which % 2 == 0,
                                                             'has_status': which % 3 == 0, 'prior': which in (1, 4, 5)}),
                              tiers=('quick',), timeout=600))
            if i == 0:
                obs.append(Ob('h_own_writes', cell, tiers=('quick', 'thorough'), timeout=300, twins=['patched'], main=False))
        obs += sample(Ob('h_own_writes', cell, tiers=('thorough',), timeout=900), 14, seed=60 + i, which=[0, 1, 2, 3, 4, 5], idx=[0, 1, 2, 3],
                      prior=[False, True], has_lbl=[False, True], has_status=[False, True])
        obs += split(Ob('h_noise_and_signal', cell, tiers=('quick', 'thorough') if quick else ('thorough',), timeout=900,
                        twins=['signal'] if i == 0 else []), what=[0, 3, 7, 9, 12] if quick else list(range(14)))
        if quick:
            obs += split(Ob('h_noise_and_signal', cell, tiers=('thorough',), timeout=900), what=[1, 2, 4, 5, 6, 8, 10, 11, 13])
    obs.append(Ob('h_other_operator', {'progress': 'annotations', 'diffbase': 'annotations', 'v1': True}, timeout=900,
                  twins=['foreign_write', 'kopf_dot_prefix']))
    obs.append(Ob('h_other_operator', {'progress': 'smart', 'diffbase': 'multi', 'v1': False}, tiers=('thorough',), timeout=900))
    obs += split(Ob('h_field_view', {'progress': 'annotations', 'diffbase': 'annotations', 'v1': True}, timeout=900, twins=['field_view']),
                 fi=[1, 3])
    obs += split(Ob('h_field_view', {'progress': 'annotations', 'diffbase': 'annotations', 'v1': True}, timeout=900, tiers=('thorough',)),
                 fi=[0, 2, 4, 5])
    # a composite diff-base storage builds the essence once per sub-storage: a handler's extra field (status.*, system metadata)
    # must survive every pass
    obs += split(Ob('h_field_view', {'progress': 'smart', 'diffbase': 'multi', 'v1': False, 'prefix': 'my.op.io'}, timeout=900), fi=[5])
    obs += split(Ob('h_field_view', {'progress': 'smart', 'diffbase': 'multi', 'v1': False, 'prefix': 'my.op.io'}, timeout=900, tiers=('thorough',)),
                 fi=[0, 1, 2, 3, 4])
    return obs
