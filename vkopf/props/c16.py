"""C16 — persistence storages round-trip, isolate and produce valid annotation names.

H1 names: real StorageKeyFormingConvention.make_v1_key/make_v2_key/make_safe_key on SYMBOLIC ids (CrossHair string theory,
    length limit scaled down; hashing = environment: make_suffix returns an arbitrary string of the proven shape).
H1b suffix lemma (z3 bit-vectors): for every 32-bit digest, base64(altchars '-.') + rstrip('=-.') is '-' + 6 chars ending
    alphanumeric (model of base64 validated against the stdlib on every run).
H2 round trip & isolation: every storage class: fetch(merge(body, store)) == record, purge restores the body, other
    ids / other prefixes / user data untouched; ReplicaSets owned by Deployments use the -ofDRS keys.
"""
import base64
import copy
import hashlib
import logging
import random
import time

import vkopf
from vkopf.driver_api import Ob, split, sample
from vkopf.world import rfc7386, base_body

from kopf._cogs.configs import conventions, diffbase, progress
from kopf._cogs.structs import bodies, patches

logging.disable(logging.CRITICAL)
ENCODED = [conventions.StorageKeyFormingConvention.make_v1_key, conventions.StorageKeyFormingConvention.make_v2_key,
           conventions.StorageKeyFormingConvention.make_safe_key, conventions.StorageKeyFormingConvention.make_keys,
           conventions.StorageKeyFormingConvention.make_suffix, conventions.CollisionEvadingConvention.mark_key,
           progress.AnnotationsProgressStorage, progress.StatusProgressStorage, progress.SmartProgressStorage,
           diffbase.AnnotationsDiffBaseStorage, diffbase.StatusDiffBaseStorage]
META = {
    'technique': 'bounded symbolic execution of the real kopf code (CrossHair 0.0.110 + z3): exhaustive path exploration per obligation cell, counterexamples replayed concretely; plus direct z3 queries whose formulas are generated from the source AST of the real functions (vkopf/astsmt.py; annotation-name validity and distinctness at the real limits 63/253 for ids up to 300 characters), validated against the real code on concrete vectors on every run',
    'bounds': 'H1: ids over [aZ0_./<>-] of length 1..5 with the name limit scaled to 4 (v2) / whole-key limit 9 (v1), i.e. both the '
              'uncut and the cut+suffix branches; suffix = any string of the lemma shape (concrete representative "-Ab", "-x.y-Z9"). '
              'H1b: all 2^32 digests. H1c (E4, smt_names/smt_distinct): the REAL limits 63/253, ids of 1..300 characters over '
              '[A-Za-z0-9_./<>-] starting and ending alphanumeric, prefixes of 1..189 characters (v2) / 1..54 (v1; longer ones: known finding F14), '
              'formula generated from the AST of make_v1_key/make_v2_key/make_safe_key, strings as (length, character function), z3 LIA+UF. H2: ids from a concrete list (short, 70 and 300 chars, sub-handler paths, field suffixes, '
              'unicode-free), records with symbolic field presence and messages from {ascii, quotes, unicode, empty}, prefixes '
              '{kopf.zalando.org, my.op.io}, v1 on/off, ReplicaSet-of-Deployment yes/no.',
    'outside': 'CrossHair H1 runs at scaled limits (the real ones are decided by H1c), blake2b collision-freeness (assumed '
               'for distinctness of long ids), ids whose first/last character is not alphanumeric (known finding F4)',
    'stubs': ['make_suffix -> representative of the lemma shape (H1)'],
    'assumptions': ['blake2b(digest_size=4) distinguishes the long ids in question'],
}
ALNUM = 'abcdefghijklmnopqrstuvwxyzABCDEFGHIJKLMNOPQRSTUVWXYZ0123456789'
ALPHABET = 'aZ0_./<>-'


class K(conventions.StorageKeyFormingConvention):
    def __init__(self, prefix, v1, suffix):
        super().__init__(prefix=prefix, v1=v1)
        self._suffix = suffix

    def make_suffix(self, key):
        return self._suffix


def valid_name(s, limit):
    if not (1 <= len(s) <= limit):
        return False
    if s[0] not in ALNUM or s[-1] not in ALNUM:
        return False
    for ch in s:
        if ch not in ALNUM and ch not in '-_.':
            return False
    return True


def h_names(key: str) -> bool:
    """
    pre: 1 <= len(key) <= 5
    pre: all(ch in 'aZ0_./<>-' for ch in key)
    post: _ == True
    """
    vkopf.begin_path()
    c = vkopf.cell()
    f4 = key[0] not in 'aZ0' or key[-1] not in 'aZ0'
    if c.get('exclude_known', True) and f4:
        return True            # known finding F4: ids starting/ending with a non-alphanumeric
    if c.get('only_f4') and not f4:
        return True
    suffix = c.get('suffix', '-Ab')
    limit = c.get('limit', 4)
    k = K('p.io', c.get('v1', False), suffix)
    if c.get('v1', False):
        full = k.make_v1_key(key, max_length=limit + 5)     # v1 counts the prefix 'p.io/' in
    else:
        full = k.make_v2_key(key, max_length=limit)
    ok = full.startswith('p.io/')
    name = full[5:]
    ok = ok and valid_name(name, limit)
    if len(key) > limit:
        vkopf.witness('cut')
        ok = ok and name.endswith(suffix)
    else:
        ok = ok and len(name) == len(key)
    # identical across restarts (a pure function of the id)
    again = k.make_v1_key(key, max_length=limit + 5) if c.get('v1', False) else k.make_v2_key(key, max_length=limit)
    ok = ok and again == full
    return vkopf.verdict(ok)


B64 = 'ABCDEFGHIJKLMNOPQRSTUVWXYZabcdefghijklmnopqrstuvwxyz0123456789-.'


def suffix_lemma(cell=None):
    """z3 (bit-vectors): shape of make_suffix() for every 32-bit digest."""
    import z3
    t0 = time.time()
    # validate the base64 model against the stdlib (and the real make_suffix against the model)
    rnd = random.Random(1)
    storage = K('p.io', False, '')
    for _ in range(2000):
        d = rnd.getrandbits(32)
        raw = d.to_bytes(4, 'big')
        sext = [(d >> 26) & 63, (d >> 20) & 63, (d >> 14) & 63, (d >> 8) & 63, (d >> 2) & 63, (d & 3) << 4]
        model = '-' + ''.join(B64[i] for i in sext)
        real = ('-' + base64.b64encode(raw, altchars=b'-.').decode('ascii')).rstrip('=-.')
        if model.rstrip('=-.') != real:
            return {'status': 'harness_error', 'message': f'base64 model mismatch for digest {d}'}
    probe = conventions.StorageKeyFormingConvention.make_suffix(storage, 'some-key')
    digest = hashlib.blake2b(b'some-key', digest_size=4).digest()
    if probe != ('-' + base64.b64encode(digest, altchars=b'-.').decode('ascii')).rstrip('=-.'):
        return {'status': 'harness_error', 'message': 'make_suffix no longer is blake2b/4 + base64(-.) + rstrip'}
    d = z3.BitVec('d', 32)
    last = z3.Extract(5, 0, (d & 3) << 4)
    s = z3.Solver()
    # the 6th character is alphanumeric (index < 62), hence rstrip('=-.') removes exactly the padding:
    # the suffix is '-' + 6 base64 characters, never empty, ending alphanumeric
    s.add(z3.Not(z3.ULT(last, 62)))
    r = s.check()
    return {'status': 'confirmed' if str(r) == 'unsat' else 'counterexample' if str(r) == 'sat' else 'inconclusive',
            'paths': 1, 'harness_calls': 1, 'nontrivial_paths': 1, 'queries': 1, 'solver_s': round(time.time() - t0, 3),
            'message': f'z3: {r}; base64 model validated on 2000 digests', 'tags': {'lemma': 1}}


# ---------------------------------------------------------------------------------------------- H1c (E4)
def _alnum(c):
    import z3
    return z3.Or(z3.And(c >= 48, c <= 57), z3.And(c >= 65, c <= 90), z3.And(c >= 97, c <= 122))


def _namech(c):
    import z3
    return z3.Or(_alnum(c), c == 45, c == 46, c == 95)


def _idch(c):
    import z3
    return z3.Or(_namech(c), c == 47, c == 60, c == 62)          # plus / < >


SMT_VECTORS = ['fn', 'fn/sub1/sub2', 'a.b<c>/d', 'x' * 63, 'x' * 64, 'x' * 70, 'a' * 60 + '/' + 'b' * 240, 'k_' + 'y' * 298]


def _names_model(fn, tag=''):
    """The real make_v1_key/make_v2_key (and make_safe_key, which they call) translated from their CURRENT source into
    terms over symbolic strings; make_suffix (a hash) is an arbitrary string of the shape proven by `suffix_lemma`."""
    from vkopf import astsmt
    SK = conventions.StorageKeyFormingConvention
    key, prefix = astsmt.BaseStr('key' + tag), astsmt.BaseStr('prefix')
    sufs = []

    def make_safe_key(tr, k):
        paths, _ = astsmt.translate(SK.make_safe_key, {'key': k})
        return astsmt.result_term(paths)

    def make_suffix(tr, k):
        sufs.append((astsmt.BaseStr(f'suf{tag}{len(sufs)}'), k))
        return sufs[-1][0]
    paths, _ = astsmt.translate(fn, {'key': key, 'self.prefix': prefix}, {'make_safe_key': make_safe_key, 'make_suffix': make_suffix})
    return key, prefix, sufs, astsmt.result_term(paths)


def _validate_translation(fn):
    """Translation validation: the repository's kind of ids through the real function and through the encoding."""
    from vkopf import astsmt
    for pfx in ('kopf.zalando.org', 'p.io', 'a' * 40 + '.example.com'):
        st = conventions.StorageKeyFormingConvention(prefix=pfx, v1=True)
        for k in SMT_VECTORS:
            key, prefix, sufs, full = _names_model(fn)
            cons = key.bind(k) + prefix.bind(pfx)
            real = fn(st, k)
            # the hashed argument is what the real code hashes (validated by asking the encoding for it)
            for suf, arg in sufs:
                argtext = astsmt.evaluate_concrete(arg, cons)
                cons = cons + suf.bind(st.make_suffix(argtext))
            got = astsmt.evaluate_concrete(full, cons)
            if got != real:
                return f'encoding of {fn.__name__} disagrees with the real function for prefix {pfx!r}, id {k[:20]!r}..: {got!r} != {real!r}'
    return None


def smt_names(cell=None, replay=None):
    """E4: validity of generated annotation names at the REAL limits (63/253, ids of 1..300 characters, prefixes of
    pmin..pmax characters), decided by z3 on a formula generated from the source AST. Six goals per query set; `unsat` of a
    negated goal = the goal holds for all ids/prefixes in the bounds."""
    import z3
    from vkopf import astsmt
    cell = cell or vkopf.cell() or {}
    SK = conventions.StorageKeyFormingConvention
    fn = SK.make_v1_key if cell.get('v1') else SK.make_v2_key
    pmin, pmax, kmax = cell.get('pmin', 1), cell.get('pmax', 189), cell.get('kmax', 300)
    if replay is not None:
        # concrete replay against the real code: does the real name violate the goal?
        import warnings
        with warnings.catch_warnings():
            warnings.simplefilter('ignore')
            st = SK(prefix=replay['prefix'], v1=True)
        full = fn(st, replay['key'])
        ok = full.startswith(replay['prefix'] + '/') and valid_name(full[len(replay['prefix']) + 1:], 63) and len(full) <= 253
        return True if ok else False
    t0 = time.time()
    err = _validate_translation(fn)
    if err:
        return {'status': 'harness_error', 'message': err}
    key, prefix, sufs, full = _names_model(fn)
    j, i = z3.Int('j'), z3.Int('i')
    name = astsmt.py_slice(full, prefix.length + 1, None)
    goals = {
        'prefixed': z3.And(full.length >= prefix.length + 1,
                           z3.Implies(z3.And(i >= 0, i < prefix.length), full.ch(i) == prefix.ch(i)), full.ch(prefix.length) == 47),
        'name_len': z3.And(name.length >= 1, name.length <= 63),
        'total_len': full.length <= 253,
        'first_alnum': _alnum(name.ch(z3.IntVal(0))),
        'last_alnum': _alnum(name.ch(name.length - 1)),
        'charset': z3.Implies(z3.And(j >= 0, j < name.length), _namech(name.ch(j))),
    }
    pre = [key.length >= 1, key.length <= kmax, prefix.length >= pmin, prefix.length <= pmax] + [sf.length == 7 for sf, _ in sufs]
    queries, found = 0, None
    for g, term in goals.items():
        s = z3.Solver()
        s.set('timeout', 60000)
        s.add(*pre)
        s.add(z3.Not(term))
        # hypotheses, instantiated at every index at which a character of an input is read:
        #   ids over [A-Za-z0-9_./<>-] that start and end alphanumeric (other ids: known finding F4);
        #   suffix = '-' + 5 of [A-Za-z0-9.-] + 1 alphanumeric (suffix_lemma)
        s.add(*key.instances(lambda a, c: z3.And(_idch(c), z3.Implies(a == 0, _alnum(c)), z3.Implies(a == key.length - 1, _alnum(c)))))
        for sf, _ in sufs:
            s.add(*sf.instances(lambda a, c: z3.And(z3.Or(_alnum(c), c == 45, c == 46), z3.Implies(a == 0, c == 45), z3.Implies(a == 6, _alnum(c)))))
        r = str(s.check())
        queries += 1
        if r == 'sat':
            m = s.model()
            k = key.concrete(m)
            k = (k[:1] if k[:1].isalnum() else 'a') + k[1:-1] + ((k[-1:] if k[-1:].isalnum() else 'a') if len(k) > 1 else '')
            found = {'goal': g, 'key': k, 'prefix': prefix.concrete(m)}
            break
        if r != 'unsat':
            return {'status': 'inconclusive', 'message': f'z3 {r} on goal {g}', 'paths': queries, 'queries': queries}
    out = {'paths': queries, 'harness_calls': queries, 'nontrivial_paths': queries, 'queries': queries,
           'solver_s': round(time.time() - t0, 3), 'tags': {'smt_goal': queries}}
    if found:
        out.update(status='counterexample', args={'replay': found}, message=f'z3: sat for goal {found["goal"]}')
    else:
        out.update(status='confirmed', message=f'z3: all {queries} negated goals unsat (ids 1..{kmax}, prefixes {pmin}..{pmax}, limits 63/253); '
                                               f'encoding validated on {len(SMT_VECTORS) * 3} ids')
    return out


def smt_distinct(cell=None, replay=None):
    """E4: two long ids (> 63 characters) under one prefix get the same v2 name only if their hash suffixes coincide
    (so: distinct names modulo a collision of the 32-bit digest) -- for ids up to 300 characters, real limit 63."""
    import z3
    from vkopf import astsmt
    SK = conventions.StorageKeyFormingConvention
    if replay is not None:
        return True
    t0 = time.time()
    err = _validate_translation(SK.make_v2_key)
    if err:
        return {'status': 'harness_error', 'message': err}
    k1, prefix, sufs1, full1 = _names_model(SK.make_v2_key, '1')
    k2, prefix2, sufs2, full2 = _names_model(SK.make_v2_key, '2')
    (s1, _), (s2, _) = sufs1[0], sufs2[0]
    j = z3.Int('j')
    s = z3.Solver()
    s.set('timeout', 60000)
    s.add(k1.length > 63, k1.length <= 300, k2.length > 63, k2.length <= 300, prefix.length >= 1, prefix.length <= 189,
          prefix2.length == prefix.length, s1.length == 7, s2.length == 7)
    # equal names (instantiated where it matters: the position of the j-th suffix character) ...
    idx = full1.length - 7 + j
    s.add(full1.length == full2.length, full1.ch(idx) == full2.ch(idx))
    # ... and yet different suffixes
    s.add(j >= 0, j < 7, s1.ch(j) != s2.ch(j))
    r = str(s.check())
    out = {'paths': 1, 'harness_calls': 1, 'nontrivial_paths': 1, 'queries': 1, 'solver_s': round(time.time() - t0, 3), 'tags': {'smt_goal': 1}}
    out.update(status='confirmed' if r == 'unsat' else 'inconclusive', message=f'z3: {r}')
    return out


# ---------------------------------------------------------------------------------------------- H2
IDS = ['fn', 'fn/sub1/sub2', 'fn/spec.field', 'x' * 70, 'a' * 60 + '/' + 'b' * 240, 'create_fn.very-long_name-' + 'y' * 45]
MSGS = [None, 'plain', 'quo"te\\slash', 'юникод ✓', '']


def make_storage(kind, prefix, v1):
    if kind == 'annotations':
        return progress.AnnotationsProgressStorage(prefix=prefix, v1=v1)
    if kind == 'status':
        return progress.StatusProgressStorage()
    return progress.SmartProgressStorage(prefix=prefix, v1=v1)


def h_roundtrip(idx: int, other: int, retries: int, success: bool, has_delayed: bool, msg: int, has_subrefs: bool, drs: bool,
                has_user: bool, prior_other_kind: bool = False) -> bool:
    """
    pre: 0 <= idx <= 5 and 0 <= other <= 5 and idx != other and 0 <= retries <= 2 and 0 <= msg <= 4
    post: _ == True
    """
    vkopf.begin_path()
    c = vkopf.cell()
    idx, other = vkopf.pin('idx', idx), vkopf.pin('other', other)
    retries, has_user = vkopf.pin('retries', retries), vkopf.pin('has_user', has_user)
    if idx == other:
        return True
    retries, msg = vkopf.choose(retries, [0, 1, 2]), vkopf.choose(msg, [0, 1, 2, 3, 4])
    kind, prefix, v1 = c.get('storage', 'annotations'), c.get('prefix', 'kopf.zalando.org'), c.get('v1', True)
    st = make_storage(kind, prefix, v1)
    foreign = progress.AnnotationsProgressStorage(prefix='other.op.io', v1=v1)
    raw = base_body()
    if drs:
        raw['kind'] = 'ReplicaSet'
        raw['metadata']['ownerReferences'] = [{'kind': 'Deployment', 'name': 'd'}]
    if has_user:
        raw['metadata']['annotations'] = {'user/note': 'keep', 'kubectl.kubernetes.io/last-applied-configuration': '{}'}
        raw['status'] = {'phase': 'Ready'}
    if prior_other_kind:
        # the same storage instance has served the same handler id on an object of the other kind before
        # (a ReplicaSet of a Deployment vs. anything else): names depend on the object, not on the history of the storage
        other_raw = base_body()
        if not drs:
            other_raw['kind'] = 'ReplicaSet'
            other_raw['metadata']['ownerReferences'] = [{'kind': 'Deployment', 'name': 'd'}]
        st.fetch(key=IDS[idx], body=bodies.Body(other_raw))
        st.store(key=IDS[idx], record=progress.ProgressRecord(started='2020-01-01T00:00:00', retries=0, success=False, failure=False,
                                                              message=None, delayed=None, stopped=None, purpose='create', subrefs=None),
                 body=bodies.Body(other_raw), patch=patches.Patch())
        vkopf.witness('prior_other_kind')
    # another handler's record and another operator's record are already there
    p0 = patches.Patch()
    rec_other = progress.ProgressRecord(started='2020-01-01T00:00:00', retries=5, success=False, failure=False, message=None,
                                        delayed=None, stopped=None, purpose='create', subrefs=None)
    st.store(key=IDS[other], record=rec_other, body=bodies.Body(raw), patch=p0)
    foreign.store(key=IDS[idx], record=rec_other, body=bodies.Body(raw), patch=p0)
    before = rfc7386(raw, dict(p0))
    rec = progress.ProgressRecord(started='2020-01-01T00:00:00', stopped='2020-01-01T00:00:01' if success else None,
                                  delayed='2020-01-01T00:01:00' if has_delayed else None, purpose='update',
                                  retries=retries, success=success, failure=False, message=MSGS[msg],
                                  subrefs=['fn/sub1'] if has_subrefs else None)
    p1 = patches.Patch()
    st.store(key=IDS[idx], record=rec, body=bodies.Body(before), patch=p1)
    stored = rfc7386(before, dict(p1))
    ok = True
    # read back identically (None fields are not stored)
    got = st.fetch(key=IDS[idx], body=bodies.Body(stored))
    want = {k: v for k, v in rec.items() if v is not None}
    if got is None or {k: v for k, v in got.items() if v is not None} != want:
        ok = False
    # identical across restarts: a fresh storage instance (a new operator process) reads the same record back
    got2 = make_storage(kind, prefix, v1).fetch(key=IDS[idx], body=bodies.Body(stored))
    if got2 is None or {k: v for k, v in got2.items() if v is not None} != want:
        ok = False
    # never disturbs other handlers' records, other operators' records, user data
    if st.fetch(key=IDS[other], body=bodies.Body(stored)) != st.fetch(key=IDS[other], body=bodies.Body(before)):
        ok = False
    if foreign.fetch(key=IDS[idx], body=bodies.Body(stored)) != foreign.fetch(key=IDS[idx], body=bodies.Body(before)):
        ok = False
    for k, v in before['metadata'].get('annotations', {}).items():
        if not k.startswith(prefix + '/') and stored['metadata']['annotations'].get(k) != v:
            ok = False
    if has_user and stored.get('status', {}).get('phase') != 'Ready':
        ok = False
    # generated names are valid Kubernetes names (name part <= 63, charset, alnum ends), marked for ReplicaSets of Deployments
    if kind != 'status':
        mine = [k for k in stored['metadata']['annotations'] if k not in before['metadata'].get('annotations', {})]
        mine = [k for k in mine if not k.endswith('/kopf-managed')]
        if not mine:
            ok = False
        for k in mine:
            name = k.split('/', 1)[1]
            if not valid_name(name, 63):
                if not (v1 and len(k) <= 63):
                    ok = False
            if drs and not ('-ofDRS' in k or len(IDS[idx]) > 50):
                ok = False
            if not drs and '-ofDRS' in k:
                ok = False
        if drs:
            vkopf.witness('drs')
    # can be purged completely: the body is exactly as before (apart from the marker)
    p2 = patches.Patch()
    st.purge(key=IDS[idx], body=bodies.Body(stored), patch=p2)
    purged = rfc7386(stored, dict(p2))
    a_before = {k: v for k, v in before['metadata'].get('annotations', {}).items() if not k.endswith('/kopf-managed')}
    a_after = {k: v for k, v in purged['metadata'].get('annotations', {}).items() if not k.endswith('/kopf-managed')}
    if a_before != a_after:
        ok = False
    if kind == 'status' and purged.get('status') != before.get('status'):
        ok = False
    # ... also when the same record is purged repeatedly into one patch (a superseded cause purges, the cycle's end purges again)
    for times in (2, 3):
        pn = patches.Patch()
        for _ in range(times):
            st.purge(key=IDS[idx], body=bodies.Body(stored), patch=pn)
        again = rfc7386(stored, dict(pn))
        if again != purged:
            ok = False
    vkopf.witness('roundtrip')
    return vkopf.verdict(ok)


def h_diffbase(shape: int, v: int, drs: bool, has_user: bool, prior: bool) -> bool:
    """
    pre: 0 <= shape <= 3
    post: _ == True
    """
    # the last-handled state: whatever essence is stored -- also the EMPTY one of an object without spec/labels/annotations --
    # is read back identically, and storing it does not change what the storage itself considers essential
    vkopf.begin_path()
    c = vkopf.cell()
    shape = vkopf.pin('shape', shape)
    v = vkopf.choose(v, [0, 7])
    kind, prefix, v1 = c.get('storage', 'annotations'), c.get('prefix', 'kopf.zalando.org'), c.get('v1', True)
    if kind == 'annotations':
        ds = diffbase.AnnotationsDiffBaseStorage(prefix=prefix, v1=v1)
    elif kind == 'status':
        ds = diffbase.StatusDiffBaseStorage()
    else:
        ds = diffbase.MultiDiffBaseStorage([diffbase.AnnotationsDiffBaseStorage(prefix=prefix, v1=v1), diffbase.StatusDiffBaseStorage()])
    raw = base_body()
    raw.pop('spec', None)
    if shape == 1:
        raw['spec'] = {'x': v}
    elif shape == 2:
        raw['spec'] = {}
        raw['metadata']['labels'] = {'app': 'l%d' % v}
    elif shape == 3:
        raw['spec'] = {'x': None, 'sub': {'y': v}}
    if drs:
        raw['kind'] = 'ReplicaSet'
        raw['metadata']['ownerReferences'] = [{'kind': 'Deployment', 'name': 'd'}]
    if has_user:
        raw['metadata'].setdefault('annotations', {})['user/note'] = 'keep'
    if prior:
        p0 = patches.Patch()
        ds.store(body=bodies.Body(raw), patch=p0, essence={'spec': {'old': 1}})
        raw = rfc7386(raw, dict(p0))
    e0 = ds.build(body=bodies.Body(raw))
    ok = True
    if not prior and ds.fetch(body=bodies.Body(raw)) is not None:
        ok = False                                  # nothing stored yet: never seen
    p1 = patches.Patch()
    ds.store(body=bodies.Body(raw), patch=p1, essence=e0)
    stored = rfc7386(raw, dict(p1))
    got = ds.fetch(body=bodies.Body(stored))
    if got is None or dict(got) != dict(e0):
        ok = False                                  # read back identically ("handled, nothing essential" is not "never seen")
    if dict(ds.build(body=bodies.Body(stored))) != dict(e0):
        ok = False                                  # its own record is not part of the essence
    if has_user and stored['metadata']['annotations'].get('user/note') != 'keep':
        ok = False
    if not e0:
        vkopf.witness('empty_essence')
    vkopf.witness('diffbase')
    return vkopf.verdict(ok)


def obligations():
    obs = []
    for v1 in (False, True):
        for suffix in ('-Ab', '-x.y-Z9'):
            q = suffix == '-Ab'
            obs.append(Ob('h_names', {'v1': v1, 'suffix': suffix, 'limit': 4 if q else 8}, timeout=3000,
                          tiers=('quick', 'thorough') if q else ('thorough',), twins=['cut'] if q and not v1 else []))
    obs.append(Ob('h_names', {'v1': False, 'exclude_known': False, 'only_f4': True}, expect='counterexample', finding='F4', timeout=600))
    obs.append(Ob('suffix_lemma', {}, engine='smt', timeout=120))
    # E4 at the real limits: formula generated from the AST of make_v1_key/make_v2_key/make_safe_key
    obs.append(Ob('smt_names', {'v1': False, 'pmin': 1, 'pmax': 189}, engine='smt', timeout=600))
    obs.append(Ob('smt_names', {'v1': True, 'pmin': 1, 'pmax': 54}, engine='smt', timeout=600))
    obs.append(Ob('smt_names', {'v1': True, 'pmin': 55, 'pmax': 189}, engine='smt', timeout=600, expect='counterexample', finding='F14'))
    obs.append(Ob('smt_distinct', {}, engine='smt', timeout=600))
    combos = [('annotations', 'kopf.zalando.org', True), ('smart', 'kopf.zalando.org', True), ('status', 'kopf.zalando.org', True),
              ('annotations', 'my.op.io', False), ('smart', 'my.op.io', False)]
    for i, (kind, prefix, v1) in enumerate(combos):
        cell = {'storage': kind, 'prefix': prefix, 'v1': v1}
        if i in (0, 2):
            for idx in (1, 3, 4):
                obs.append(Ob('h_roundtrip', dict(cell, pin={'idx': idx, 'other': (idx + 1) % 6, 'retries': 1, 'has_user': True}),
                              tiers=('quick',), timeout=900))
        obs += sample(Ob('h_roundtrip', cell, timeout=900, tiers=('thorough',)), 14, seed=160 + i, idx=[0, 1, 2, 3, 4, 5], other=[0, 3], has_user=[False, True])
    obs.append(Ob('h_roundtrip', {'storage': 'annotations', 'prefix': 'kopf.zalando.org', 'v1': True}, tiers=('quick', 'thorough'),
                  timeout=300, twins=['roundtrip', 'drs', 'prior_other_kind'], main=False))
    for kind, prefix, v1 in (('annotations', 'kopf.zalando.org', True), ('multi', 'my.op.io', False), ('status', 'kopf.zalando.org', True)):
        obs.append(Ob('h_diffbase', {'storage': kind, 'prefix': prefix, 'v1': v1}, timeout=600,
                      twins=['empty_essence'] if kind == 'annotations' else []))
    return obs
