"""C18 — admission responses faithfully reflect handler outcomes and requested mutations.

Real code: admission.build_response, admission.serve_admission_request, registries.WebhooksRegistry.iter_handlers,
patches.Patch.as_json_patch/_apply_patch (+ jsonpatch.from_diff as used by kopf), execution.execute_handlers_once.
Reference: independent RFC 6902 applier + RFC 7386 merge (vkopf.world).
"""
import asyncio
import base64
import copy
import json
import logging

import kopf
import vkopf
from vkopf.driver_api import Ob, split, sample
from vkopf.symloop import SymLoop
from vkopf.world import rfc7386, rfc6902, GROUP, VERSION, PLURAL, make_resource

from kopf._cogs.configs import configuration
from kopf._cogs.structs import ephemera, patches, references
from kopf._core.actions import execution
from kopf._core.engines import admission
from kopf._core.intents import causes, registries
from kopf._core.reactor import inventory

logging.disable(logging.CRITICAL)
ENCODED = [admission.build_response, admission.serve_admission_request, registries.WebhooksRegistry.iter_handlers,
           patches.Patch.as_json_patch, patches.Patch._apply_patch, execution.execute_handler_once]
META = {
    'bounds': 'reviewed objects also with explicit nulls (body shapes 6, 7). H1: <=3 outcomes with symbolic error kind (none/AdmissionError(code symbolic)/Permanent/Temporary/other) and <=2 '
              'warnings. H2: one handler with symbolic (id hint, reason hint, handler reason, operation in CREATE/UPDATE/DELETE/CONNECT, '
              'handler operations set, subresource pair, optional field filter with old/new field values in absent|x|y). H3: reviewed object template spec={a: X, keep: 1}, X in '
              'absent|int|str|list|{b:int}|{b:int,c:int}; patch template for spec.a in untouched|null|int|str|list|{b:int}|{b:null}|{d:int}|{}; '
              'keys with "/" and "~" (cell); transformation fns subset of {append finalizer, set label}.',
    'outside': 'webhook servers/tunnels (HTTP, TLS), the per-request operations filter (enforced by the generated webhook '
               'configuration, checked in H2b on build_webhooks output), deeper patch nesting',
    'stubs': ['memories -> inventory.ResourceMemories (real)', 'insights -> references.Insights with one webhook resource'],
    'assumptions': ['Kubernetes applies the returned RFC 6902 patch as specified'],
}


# ------------------------------------------------------------------------------ H1 build_response
class MyAdmissionError(admission.AdmissionError):
    pass


class MyPermanentError(kopf.PermanentError):
    pass


class MyTemporaryError(kopf.TemporaryError):
    pass


def _exc(kind, code, msg, sub=False):
    """sub: a user-defined subclass of the kopf error class (it is as specific as its base)."""
    if kind == 0:
        return None
    if kind == 1:
        return (MyAdmissionError if sub else admission.AdmissionError)(msg, code=code)
    if kind == 2:
        return (MyPermanentError if sub else kopf.PermanentError)(msg)
    if kind == 3:
        return (MyTemporaryError if sub else kopf.TemporaryError)(msg, delay=1)
    return (IndexError if sub else ValueError)(msg)


def h_response(n: int, k0: int, k1: int, k2: int, c0: int, c1: int, c2: int, nw: int, u0: bool, u1: bool, u2: bool) -> bool:
    """
    pre: 0 <= n <= 3 and 0 <= nw <= 2
    pre: 0 <= k0 <= 4 and 0 <= k1 <= 4 and 0 <= k2 <= 4
    pre: 0 <= c0 <= 599 and 0 <= c1 <= 599 and 0 <= c2 <= 599
    post: _ == True
    """
    vkopf.begin_path()
    n = vkopf.pin('n', n)
    kinds, codes = [k0, k1, k2][:n], [c0, c1, c2][:n]
    outcomes = {}
    for i in range(n):
        e = _exc(kinds[i], codes[i], 'm%d' % i, [u0, u1, u2][i])
        outcomes['h%d' % i] = execution.Outcome(final=True, exception=e)
    warnings = ['w%d' % i for i in range(nw)]
    resp = admission.build_response(request={'request': {'uid': 'u'}}, outcomes=outcomes, warnings=warnings, jsonpatch=[])
    r = resp['response']
    ok = True
    any_exc = any(k != 0 for k in kinds)
    if r['allowed'] != (not any_exc):
        ok = False
    if nw:
        ok = ok and r.get('warnings') == warnings
    else:
        ok = ok and 'warnings' not in r
    if any_exc:
        vkopf.witness('denied')
        # most specific error: admission(1) < permanent(2) < temporary(3) < other(4); first in order among equals
        best = None
        for i in range(n):
            if kinds[i] != 0 and (best is None or kinds[i] < kinds[best]):
                best = i
        st = r.get('status')
        if st is None or st['message'] != 'm%d' % best:
            ok = False
        else:
            want_code = codes[best] if kinds[best] == 1 and codes[best] else 500
            if st['code'] != want_code:
                ok = False
    else:
        ok = ok and 'status' not in r
    return vkopf.verdict(ok)


# ------------------------------------------------------------------------------ H2 handler selection
OPS = ['CREATE', 'UPDATE', 'DELETE', 'CONNECT']


def _is_x(value, **_):
    return value == 'x'


def h_select(hint_id: int, hint_reason: int, hreason: bool, op: int, hops: int, hsub: int, csub: int, lab: int, has_label: bool,
             f_new: int, f_old: int) -> bool:
    """
    pre: 0 <= hint_id <= 2 and 0 <= hint_reason <= 2 and 0 <= op <= 3 and 0 <= hops <= 3
    pre: 0 <= hsub <= 2 and 0 <= csub <= 1 and 0 <= lab <= 2 and 0 <= f_new <= 2 and 0 <= f_old <= 2
    post: _ == True
    """
    vkopf.begin_path()
    hint_id, op, hops, hsub = vkopf.pin('hint_id', hint_id), vkopf.pin('op', op), vkopf.pin('hops', hops), vkopf.pin('hsub', hsub)
    registry = registries.OperatorRegistry()
    calls = []
    ops_sets = [None, ['DELETE'], ['CREATE', 'UPDATE'], ['CREATE', 'DELETE']]
    subs = [None, 'scale', '*']
    labels = [None, {'app': 'x'}, {'app': kopf.ABSENT}][lab]
    deco = kopf.on.mutate if hreason else kopf.on.validate
    # an optional field filter (per cell): 1 value='x', 2 PRESENT, 3 ABSENT, 4 callback, 5 field= alone
    fcrit = vkopf.cell().get('fcrit', 0)
    fkw = {}
    if fcrit:
        fkw['field'] = 'spec.f'
        if fcrit != 5:
            fkw['value'] = [None, 'x', kopf.PRESENT, kopf.ABSENT, _is_x][fcrit]
    else:
        f_new = f_old = 0

    @deco(PLURAL, id='h', registry=registry, operations=ops_sets[hops], subresource=subs[hsub], labels=labels, **fkw)
    async def h(**kw):
        calls.append('h')

    resource = make_resource()
    FV = [None, 'x', 'y']

    def obj(f):
        o = {'metadata': {'name': 'n', 'namespace': 'ns', 'labels': {'app': 'x'} if has_label else {}}, 'spec': {'keep': 1}}
        if FV[f] is not None:
            o['spec']['f'] = FV[f]
        return o
    # CREATE/CONNECT carry the new object only, DELETE the old one only, UPDATE both; the reviewed object is the new one if any
    new_o = None if OPS[op] == 'DELETE' else obj(f_new)
    old_o = obj(f_old) if OPS[op] in ('UPDATE', 'DELETE') else None
    body = new_o if new_o is not None else old_o
    reviewed_f = FV[f_new] if new_o is not None else FV[f_old]
    reason_hint = [None, causes.WebhookType.VALIDATING, causes.WebhookType.MUTATING][hint_reason]
    webhook_hint = [None, 'h', 'other'][hint_id]
    cause = causes.WebhookCause(
        resource=resource, indices={}, logger=logging.getLogger('x'), patch=patches.Patch(), memo=ephemera.Memo(),
        body=kopf.Body(body) if hasattr(kopf, 'Body') else body, userinfo={}, warnings=[], operation=OPS[op],
        subresource=[None, 'scale'][csub], dryrun=False, sslpeer={}, headers={}, webhook=webhook_hint, reason=reason_hint,
        old=kopf.Body(old_o) if old_o is not None else None, new=kopf.Body(new_o) if new_o is not None else None, diff=None)
    got = [x.id for x in registry._webhooks.get_handlers(cause)]
    my_reason = causes.WebhookType.MUTATING if hreason else causes.WebhookType.VALIDATING
    want = True
    if reason_hint is not None and reason_hint != my_reason:
        want = False
    if webhook_hint is not None and webhook_hint != 'h':
        want = False
    if hreason and OPS[op] == 'DELETE' and ops_sets[hops] != ['DELETE']:
        want = False     # mutating handlers not on DELETE unless they opted in
    if not (subs[hsub] == '*' or subs[hsub] == [None, 'scale'][csub]):
        want = False
    if lab == 1 and not has_label:
        want = False
    if lab == 2 and has_label:
        want = False
    # field filters look at the reviewed object "in its current -- and only -- state" (docs/filters.rst)
    if fcrit in (1, 4) and reviewed_f != 'x':
        want = False
    if fcrit in (2, 5) and reviewed_f is None:
        want = False
    if fcrit == 3 and reviewed_f is not None:
        want = False
    if want:
        vkopf.witness('selected')
    ok = got == ([('h/spec.f' if fcrit else 'h')] if want else [])     # (field handlers carry the field in their id)
    # the per-request operation filter lives in the generated webhook configuration:
    hooks = admission.build_webhooks(registry._webhooks.get_all_handlers(), resources=[resource], name_suffix='s',
                                     client_config={'url': 'https://x'})
    if len(hooks) != 1 or hooks[0]['rules'][0]['operations'] != list(ops_sets[hops] or ['*']):
        ok = False
    want_res = [PLURAL] if subs[hsub] is None else [f'{PLURAL}/{subs[hsub]}']
    if hooks[0]['rules'][0]['resources'] != want_res:
        ok = False
    return vkopf.verdict(ok)


# ------------------------------------------------------------------------------ H3 the JSON patch
def norm(x):
    """Equality up to the presence of empty mappings."""
    if isinstance(x, dict):
        out = {k: norm(v) for k, v in x.items()}
        return {k: v for k, v in out.items() if v != {}}
    return x


def body_a(shape, v, K):
    if shape == 0:
        return {}
    if shape == 1:
        return {K: v}
    if shape == 2:
        return {K: 's'}
    if shape == 3:
        return {K: [v]}
    if shape == 4:
        return {K: {'b': v}}
    if shape == 6:
        return {K: None}                 # a field present with an explicit JSON null (as apiservers serialise zero values)
    if shape == 7:
        return {K: {'b': None, 'c': 7}}
    return {K: {'b': v, 'c': 7}}


def patch_a(shape, v, K):
    if shape == 0:
        return {}
    if shape == 1:
        return {K: None}
    if shape == 2:
        return {K: v}
    if shape == 3:
        return {K: 't'}
    if shape == 4:
        return {K: [v, v]}
    if shape == 5:
        return {K: {'b': v}}
    if shape == 6:
        return {K: {'b': None}}
    if shape == 7:
        return {K: {'d': v}}
    return {K: {}}


def run_review(bshape, bv, pshape, pv, fin, lbl, fail, K):
    registry = registries.OperatorRegistry()
    raw = {'apiVersion': f'{GROUP}/{VERSION}', 'kind': 'KopfExample',
           'metadata': {'name': 'n', 'namespace': 'ns', 'uid': 'u1'}, 'spec': dict(body_a(bshape, bv, K), keep=1)}
    pa = patch_a(pshape, pv, K)

    def add_fin(body):
        body.setdefault('metadata', {}).setdefault('finalizers', []).append('my/fin')

    def set_lbl(body):
        body.setdefault('metadata', {}).setdefault('labels', {})['tier'] = 'db'

    @kopf.on.mutate(PLURAL, id='m', registry=registry)
    async def m(patch, **kw):
        for k, v in pa.items():
            patch.spec[k] = copy.deepcopy(v)
        if fin:
            patch.fns.append(add_fin)
        if lbl:
            patch.fns.append(set_lbl)
        if fail:
            raise admission.AdmissionError('no', code=418)

    resource = make_resource()
    insights = references.Insights()
    insights.webhook_resources.add(resource)
    request = {'apiVersion': 'admission.k8s.io/v1', 'kind': 'AdmissionReview',
               'request': {'uid': 'r1', 'operation': 'UPDATE', 'userInfo': {'username': 'me'}, 'object': copy.deepcopy(raw),
                           'resource': {'group': GROUP, 'version': VERSION, 'resource': PLURAL}}}
    loop = SymLoop()

    async def main():
        return await admission.serve_admission_request(
            request, settings=configuration.OperatorSettings(), memories=inventory.ResourceMemories(),
            memobase=ephemera.Memo(), registry=registry, insights=insights, indices={})
    resp = loop.run(main())
    want = rfc7386(raw, {'spec': pa})
    if fin:
        add_fin(want)
    if lbl:
        set_lbl(want)
    return raw, resp, want


def h_patch(bshape: int, bv: int, pshape: int, pv: int, fin: bool, lbl: bool, fail: bool) -> bool:
    """
    pre: 0 <= bshape <= 7 and 0 <= pshape <= 8
    post: _ == True
    """
    vkopf.begin_path()
    c = vkopf.cell()
    K = c.get('key', 'a')
    bshape, pshape = vkopf.pin('bshape', bshape), vkopf.pin('pshape', pshape)
    bv, pv = vkopf.choose(bv, [3, 4]), vkopf.choose(pv, [3, 5])      # values cross json/base64: concrete per path
    if pshape in (5, 6, 7, 8) and bshape in (1, 2, 3):
        vkopf.witness('mapping_over_scalar')     # the region of the fixed finding F3 stays covered
    raw, resp, want = run_review(bshape, bv, pshape, pv, fin, lbl, fail, K)
    r = resp['response']
    ok = r['allowed'] == (not fail)
    if fail:
        ok = ok and r['status']['code'] == 418 and r['status']['message'] == 'no'
    ops = json.loads(base64.b64decode(r['patch'])) if 'patch' in r else []
    if 'patch' in r:
        ok = ok and r.get('patchType') == 'JSONPatch'
    got = rfc6902(raw, ops)
    if ops:
        vkopf.witness('mutated')
    if norm(got) != norm(want):
        ok = False
    return vkopf.verdict(ok)


# ------------------------------------------------------------------------------ H4 the whole review with several handlers
def h_serve(ka: int, kb: int, ca: int, cb: int, b_mutates: bool, hint: int, same_id: bool) -> bool:
    """
    pre: 0 <= ka <= 4 and 0 <= kb <= 4 and 100 <= ca <= 599 and 100 <= cb <= 599 and 0 <= hint <= 2
    post: _ == True
    """
    vkopf.begin_path()
    c = vkopf.cell()
    same_id = vkopf.pin('same_id', same_id)
    # known finding F13: outcomes are keyed by handler id, so two selected handlers sharing an id mask each other
    # (with one id both are selected whatever the hint says, unless the hint names another id)
    f13 = same_id and hint != 2 and (ka != 0 or kb != 0)
    if c.get('exclude_known', True) and f13:
        return True
    if c.get('only_f13') and not f13:
        return True
    registry = registries.OperatorRegistry()
    ran = []

    @kopf.on.validate(PLURAL, id='x', registry=registry)
    async def a(**kw):
        ran.append('a')
        e = _exc(ka, ca, 'ma')
        if e is not None:
            raise e

    deco = kopf.on.mutate if b_mutates else kopf.on.validate

    @deco(PLURAL, id='x' if same_id else 'y', registry=registry)
    async def b(**kw):
        ran.append('b')
        e = _exc(kb, cb, 'mb')
        if e is not None:
            raise e

    resource = make_resource()
    insights = references.Insights()
    insights.webhook_resources.add(resource)
    raw = {'apiVersion': f'{GROUP}/{VERSION}', 'kind': 'KopfExample', 'metadata': {'name': 'n', 'namespace': 'ns', 'uid': 'u1'}, 'spec': {'keep': 1}}
    request = {'apiVersion': 'admission.k8s.io/v1', 'kind': 'AdmissionReview',
               'request': {'uid': 'r1', 'operation': 'CREATE', 'userInfo': {'username': 'me'}, 'object': raw,
                           'resource': {'group': GROUP, 'version': VERSION, 'resource': PLURAL}}}
    webhook = [None, 'x', 'y'][hint]           # the id hint the built-in servers take from the URL
    loop = SymLoop()

    async def main():
        return await admission.serve_admission_request(
            request, settings=configuration.OperatorSettings(), memories=inventory.ResourceMemories(),
            memobase=ephemera.Memo(), registry=registry, insights=insights, indices={}, webhook=webhook)
    r = loop.run(main())['response']
    sel_a = webhook in (None, 'x')
    sel_b = webhook is None or webhook == ('x' if same_id else 'y')
    ok = sorted(ran) == sorted((['a'] if sel_a else []) + (['b'] if sel_b else []))      # exactly the selected handlers run
    raised = [(k, code, m) for (sel, k, code, m) in ((sel_a, ka, ca, 'ma'), (sel_b, kb, cb, 'mb')) if sel and k != 0]
    if r['allowed'] != (not raised):
        ok = False                                  # allowed if and only if no selected handler raised
    if raised:
        vkopf.witness('denied')
        best = min(raised, key=lambda t: t[0])      # most specific error first; the first in order among equals
        st = r.get('status') or {}
        if r['allowed'] is False and (st.get('message') != best[2] or st.get('code') != (best[1] if best[0] == 1 else 500)):
            ok = False
    return vkopf.verdict(ok)


def obligations():
    obs = split(Ob('h_response', {}, timeout=600, twins=['denied']), n=[0, 1, 2, 3])
    for (op, hops) in ((0, 0), (2, 1), (2, 2), (1, 3), (3, 0), (2, 0)):
        obs.append(Ob('h_select', {'pin': {'op': op, 'hops': hops}}, tiers=('quick',), timeout=900))
    obs.append(Ob('h_select', {}, tiers=('quick', 'thorough'), timeout=300, twins=['selected'], main=False))
    for fcrit, op, hops in ((1, 1, 0), (3, 2, 1), (4, 1, 2), (3, 0, 0)):
        obs.append(Ob('h_select', {'fcrit': fcrit, 'pin': {'op': op, 'hops': hops, 'hint_id': 0, 'hsub': 0}}, tiers=('quick',), timeout=900))
    for fcrit in (1, 2, 3, 4, 5):
        obs += split(Ob('h_select', {'fcrit': fcrit, 'pin': {'hint_id': 0, 'hsub': 0}}, timeout=900, tiers=('thorough',)), op=[0, 1, 2, 3], hops=[0, 1])
    obs += split(Ob('h_select', {}, timeout=900, tiers=('thorough',)), op=[0, 1, 2, 3], hops=[0, 1, 2, 3])
    for (bshape, pshape) in ((1, 5), (3, 6), (2, 8), (4, 6), (5, 7), (4, 1), (0, 5), (5, 4)):
        obs.append(Ob('h_patch', {'key': 'a', 'pin': {'bshape': bshape, 'pshape': pshape}}, tiers=('quick',), timeout=600))
    for (bshape, pshape) in ((6, 1), (7, 6), (6, 5)):       # explicit nulls in the reviewed object
        obs.append(Ob('h_patch', {'key': 'a', 'pin': {'bshape': bshape, 'pshape': pshape}}, tiers=('quick', 'thorough'), timeout=600))
    obs.append(Ob('h_patch', {'key': 'a'}, tiers=('quick', 'thorough'), timeout=300, twins=['mutated', 'mapping_over_scalar'], main=False))
    for key in ('a', 'x/y~z'):
        obs += sample(Ob('h_patch', {'key': key}, timeout=900, tiers=('thorough',)), 30, seed=180 + len(key), bshape=[0, 1, 2, 3, 4, 5, 6, 7], pshape=[0, 1, 2, 3, 4, 5, 6, 7, 8])
    obs += split(Ob('h_serve', {}, timeout=600, twins=['denied']), same_id=[False, True])
    obs.append(Ob('h_serve', {'exclude_known': False, 'only_f13': True, 'pin': {'same_id': True}}, expect='counterexample', finding='F13', timeout=300))
    return obs
