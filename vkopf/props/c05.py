"""C05 — each event maps to exactly one cause; handler kinds are mutually exclusive.

H1: causes.detect_changing_cause on symbolic inputs vs. the ordered decision list of the statement.
H2: one REAL process_resource_event (causes -> registries -> execution -> progression ->
    application -> patch_obj) from a symbolic object state built as a real body, handlers of every
    kind declared; the oracle reads only the object's server-side state and the handler log.
"""
import asyncio
import json
import logging

import kopf
import vkopf
from vkopf.driver_api import Ob
from vkopf.symloop import Deadlock, Diverged, Livelock
from vkopf.world import World, base_body, FIN, LHC, PLURAL, make_resource

from kopf._cogs.structs import bodies, diffs, ephemera, patches
from kopf._core.intents import causes, registries
from kopf._core.reactor import processing

logging.disable(logging.CRITICAL)
# a foreign finalizer that merely looks like the framework's own (its unqualified tail): only the exact name is ours
LOOKALIKE = FIN.rpartition('/')[2]
ENCODED = [causes.detect_changing_cause, processing.process_resource_event, processing.process_resource_causes,
           processing._detect_causes, processing.process_changing_cause,
           registries.ChangingRegistry.iter_handlers, registries.ChangingRegistry.prematch]
META = {
    'bounds': 'H1: all 4 event types x 5 booleans (exhaustive). H2: one event; event type in {None(listing), ADDED, '
              'MODIFIED, DELETED}; symbolic deletion mark, own finalizer, last-handled annotation present, essential '
              'difference, optional delete handler, resume(deleted=True) opt-in; one object; one cycle.',
    'outside': 'multi-cycle histories (covered for the cause/handler exclusion by C02/C03/C14 closed loops); sync handlers',
    'stubs': ['api.patch -> FakeServer (RFC 7386/6902 reference)'],
    'assumptions': ['the event body is what the API server delivered (system fields consistent)'],
}
TYPES = [None, 'ADDED', 'MODIFIED', 'DELETED']


def expected_reason(raw_type, deleting, has_fin, old_none, diff_empty, initial):
    if raw_type == 'DELETED':
        return 'gone'
    if deleting and not has_fin:
        return 'free'
    if deleting:
        return 'delete'
    if old_none:
        return 'create'
    if diff_empty and initial:
        return 'resume'
    if diff_empty:
        return 'noop'
    return 'update'


def h_detect(evtype: int, deleting: bool, has_fin: bool, old_none: bool, diff_empty: bool, initial: bool) -> bool:
    """
    pre: 0 <= evtype <= 3
    post: _ == True
    """
    vkopf.begin_path()
    raw_type = TYPES[evtype]
    meta = {}
    if deleting:
        meta['deletionTimestamp'] = '2020-01-01T00:00:00Z'
    meta['finalizers'] = [FIN, LOOKALIKE] if has_fin else [LOOKALIKE]
    raw = base_body(**meta)
    body = bodies.Body(raw)
    old = None if old_none else {'spec': {'x': 1}}
    new = {'spec': {'x': 1}} if diff_empty else {'spec': {'x': 2}}
    diff = diffs.diff(old, new) if old is not None else diffs.diff(None, new)
    if old is not None and diff_empty and diff:
        raise vkopf.HarnessError('diff expected empty')
    cause = causes.detect_changing_cause(
        finalizer=FIN, raw_event={'type': raw_type, 'object': raw}, body=body, old=old, new=new, diff=diff,
        initial=initial, resource=make_resource(), indices={},
        logger=logging.getLogger('x'), patch=patches.Patch(), memo=ephemera.Memo())
    # with old None, the real diff is non-empty; the decision list uses `not diff`
    eff_diff_empty = not diff
    want = expected_reason(raw_type, deleting, has_fin, old_none, eff_diff_empty, initial)
    ok = isinstance(cause.reason, causes.Reason) and cause.reason.value == want
    if want == 'create':
        ok = ok and cause.initial is False
    else:
        ok = ok and cause.initial == initial
    vkopf.witness('reason_' + want)
    return vkopf.verdict(ok)


def run_event(evtype, deleting, has_fin, handled, changed, with_delete, optional_delete, resume_deleted, bare=False):
    """bare: the object has no spec at all, so its (handled) essence is the empty mapping."""
    obj_meta = {'annotations': {}}
    if deleting:
        obj_meta['deletionTimestamp'] = '2020-01-01T00:00:00Z'
    obj_meta['finalizers'] = [FIN, 'other/fin', LOOKALIKE] if has_fin else ['other/fin', LOOKALIKE]
    if handled:
        obj_meta['annotations'][LHC] = (json.dumps({}) if bare else json.dumps({'spec': {'x': 1}})) + '\n'
    obj = base_body(spec={'x': 2 if changed else 1}, **obj_meta)
    if bare:
        del obj['spec']
        if changed:
            obj['spec'] = {'x': 2}          # the spec appears for the first time
    w = World(obj)
    calls = w.calls

    @kopf.on.create(PLURAL, id='c', registry=w.registry)
    async def c(**kw): calls.append(('create', kw['reason'].value))

    @kopf.on.update(PLURAL, id='u', registry=w.registry)
    async def u(**kw): calls.append(('update', kw['reason'].value))

    @kopf.on.resume(PLURAL, id='r', registry=w.registry, deleted=resume_deleted)
    async def r(**kw): calls.append(('resume', kw['reason'].value))

    @kopf.on.field(PLURAL, id='f', field='spec.x', registry=w.registry)
    async def f(**kw): calls.append(('field', kw['reason'].value))

    if with_delete:
        @kopf.on.delete(PLURAL, id='d', registry=w.registry, optional=optional_delete)
        async def d(**kw): calls.append(('delete', kw['reason'].value))

    async def main():
        return await w.process(TYPES[evtype])
    rv = w.run(main())
    return w, calls, rv


def h_event(evtype: int, deleting: bool, has_fin: bool, handled: bool, changed: bool, with_delete: bool,
            optional_delete: bool, resume_deleted: bool, bare: bool) -> bool:
    """
    pre: 0 <= evtype <= 3
    post: _ == True
    """
    vkopf.begin_path()
    only = vkopf.cell('evtype')
    if only is not None and evtype != only:
        return True
    try:
        bare = vkopf.pin('bare', bare)
        w, calls, rv = run_event(evtype, deleting, has_fin, handled, changed, with_delete, optional_delete, resume_deleted, bare)
    except (Deadlock, Diverged, Livelock):
        return vkopf.verdict(False)
    kinds = {k for k, _ in calls}
    raw_type = TYPES[evtype]
    gone = raw_type == 'DELETED'
    listed = raw_type is None
    ok = True
    # creation/update handlers never on an object marked for deletion
    if deleting and ({'create', 'update'} & kinds):
        ok = False
    # deletion handlers only while marked for deletion AND held by our finalizer AND not really gone
    if 'delete' in kinds and not (deleting and has_fin and not gone):
        ok = False
    # nothing for gone / released
    if (gone or (deleting and not has_fin)) and kinds:
        ok = False
    # every handler saw the one reason of this event, and reasons are consistent with the state
    reasons = {r for _, r in calls}
    if len(reasons) > 1:
        ok = False
    if reasons:
        # the finalizer must have been there already for any change handler to run when one is required
        want = expected_reason(raw_type, deleting, has_fin, not handled, not changed, listed)
        if reasons != {want}:
            ok = False
        if want in ('noop', 'gone', 'free'):
            ok = False
    # resume handlers: only on the first sight by listing; not on deleted objects unless opted in
    if 'resume' in kinds:
        if not listed or (not handled and not deleting):   # creation never mixes with resuming
            ok = False
        if deleting and not resume_deleted:
            ok = False
    if 'create' in kinds and handled:
        ok = False
    if 'update' in kinds and not (handled and changed):
        ok = False
    # a field handler (any reason) only when the field's value differs from the last-handled one
    if 'field' in kinds and handled and not changed:
        ok = False
    # foreign finalizers are never touched
    obj = w.server.obj
    if obj is not None and 'other/fin' not in obj['metadata'].get('finalizers', []):
        ok = False
    if kinds:
        vkopf.witness('handlers_ran')
    if 'delete' in kinds:
        vkopf.witness('delete_ran')
    if 'resume' in kinds:
        vkopf.witness('resume_ran')
    return vkopf.verdict(ok)


def obligations():
    obs = [Ob('h_detect', {}, timeout=300, twins=['reason_resume', 'reason_free', 'reason_update'])]
    for t in range(4):
        obs.append(Ob('h_event', {'evtype': t, 'pin': {'bare': False}}, timeout=900, path_timeout=120))
    for t in (0, 2):
        obs.append(Ob('h_event', {'evtype': t, 'pin': {'bare': True}}, timeout=900, path_timeout=120))
    obs.append(Ob('h_event', {}, timeout=600, path_timeout=120, twins=['delete_ran', 'resume_ran'], main=False))
    return obs
