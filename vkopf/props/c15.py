"""C15 — exactly the handlers whose declared criteria hold are invoked.

H1: differential: the REAL registries (kopf.on.* decorators -> ChangingRegistry.get_handlers -> match/prematch,
    _deduplicated) against `spec_match`, an executable reading of docs/filters.rst written independently
    (each clause cites the paragraph it encodes).
H2: stealth mode: real process_resource_event with handlers none of which pre-matches -> no request, no annotation,
    no finalizer.
"""
import logging

import kopf
import vkopf
from vkopf.props import c04 as _c04
from vkopf.driver_api import Ob, split
from vkopf.symloop import Deadlock, Diverged, Livelock
from vkopf.world import World, base_body, make_resource, PLURAL, FIN

from kopf._cogs.structs import bodies, diffs, ephemera, patches
from kopf._core.intents import causes, registries
from kopf._core.reactor import processing

logging.disable(logging.CRITICAL)
ENCODED = [registries.match, registries.prematch, registries._matches_labels, registries._matches_annotations,
           registries._matches_metadata, registries._matches_field_values, registries._matches_field_changes,
           registries._matches_filter_callback, registries._deduplicated, registries.ChangingRegistry.iter_handlers,
           processing.process_resource_causes]
META = {
    'bounds': 'duplicate registration also with another handler registered in between (dup = 3). one handler declaration over the alphabet: labels/annotations criterion in {none,"x",PRESENT,ABSENT,callback==x,'
              'callback is-None}; field in {none, spec.f}; value/old/new in {none,"x",PRESENT,ABSENT,callback==x}; when in '
              '{none,true,false}; decorator in {create, update, field, delete, resume}; object label/annotation in {absent,"x","y"}; '
              'old/new field value in {absent,"x","y"}; unrelated change yes/no; duplicate registration same/different id; optionally a second label/annotation criterion of the same filter.',
    'outside': 'more than two criteria keys per filter, nested field paths > 2, callbacks with side effects, resource selectors '
               '(a concrete matching selector is used), random larger declarations',
    'stubs': ['api.patch -> FakeServer (H2)'],
    'assumptions': ['docs/filters.rst is the specification of matching'],
}

X = 'x'
ABSENT = '<absent>'
VALS = [ABSENT, 'x', 'y', None]   # index 3: the field is present with an explicit JSON null
META_VALS = [ABSENT, 'x', 'y']    # labels/annotations are strings


def cb_is_x(value, **_):
    return value == 'x'


def cb_is_none(value, **_):
    return value is None


def crit(i):
    return [None, 'x', kopf.PRESENT, kopf.ABSENT, cb_is_x, cb_is_none][i]


def spec_value(c, v):
    """docs/filters.rst 'Metadata filters' / 'Field filters' / 'Value callbacks': one criterion vs one value
    (ABSENT = the key/field is missing; None = present with an explicit null)."""
    if c == 0:
        return True
    if c == 1:
        return v == 'x'                   # "has a specific value"
    if c == 2:
        return v != ABSENT                # "with any value" (present, even if null)
    if c == 3:
        return v == ABSENT                # "has no label or annotation with that name"
    seen = None if v == ABSENT else v     # callbacks: "The passed value will be None if the value is absent"
    if c == 4:
        return seen == 'x'
    return seen is None


def spec_match(kind, lc, ac, use_field, vc, oc, nc, when, label, ann, old_f, new_f, other_changed):
    """Executable reading of docs/filters.rst. kind: 0 create, 1 update, 2 field."""
    if not spec_value(lc, label) or not spec_value(ac, ann):
        return False
    if when == 2:
        return False
    if not use_field:
        return True
    if kind in (1, 2):
        # "Field filters" (update handlers): restricted to cases where the field is affected in any way
        if old_f == new_f:
            return False
        # "value= applies to either the old or the new value"; unspecified value == PRESENT (before or after)
        v_eff = 2 if vc == 0 and oc == 0 and nc == 0 else vc
        if v_eff != 0 and not (spec_value(v_eff, old_f) or spec_value(v_eff, new_f)):
            return False
        # "Change filters": old=/new= are checked separately
        if not spec_value(oc, old_f) or not spec_value(nc, new_f):
            return False
        return True
    # "For all other handlers ... check the resource in its current ---and only--- state."
    v_eff = 2 if vc == 0 else vc
    return spec_value(v_eff, new_f)


def build(kind, lc, ac, use_field, vc, oc, nc, when, dup, lc2=0, ac2=0):
    registry = registries.OperatorRegistry()
    kw = {}
    if lc:
        kw['labels'] = {'l': crit(lc)}
    if lc2:
        kw.setdefault('labels', {})['l2'] = crit(lc2)
    if ac:
        kw['annotations'] = {'a': crit(ac)}
    if ac2:
        kw.setdefault('annotations', {})['a2'] = crit(ac2)
    if when:
        kw['when'] = (lambda **_: True) if when == 1 else (lambda **_: False)
    if use_field:
        kw['field'] = 'spec.f'
        if vc:
            kw['value'] = crit(vc)
        if kind in (1, 2):
            if oc:
                kw['old'] = crit(oc)
            if nc:
                kw['new'] = crit(nc)
    deco = [kopf.on.create, kopf.on.update, kopf.on.field][kind]
    if kind == 2 and not use_field:
        kw['field'] = 'spec.f'

    async def fn(**_):
        pass
    deco(PLURAL, id='h', registry=registry, **kw)(fn)
    if dup == 1:
        deco(PLURAL, id='h', registry=registry, **kw)(fn)       # same function, same id: once
    elif dup == 2:
        deco(PLURAL, id='h2', registry=registry, **kw)(fn)      # same function, another id: twice
    elif dup == 3:
        async def other(**_):
            pass
        deco(PLURAL, id='g', registry=registry, **kw)(other)    # another handler registered in between ...
        deco(PLURAL, id='h', registry=registry, **kw)(fn)       # ... the same function under the same id again: still once
    return registry


def make_cause(kind, label, ann, old_f, new_f, other_changed, label2=ABSENT, ann2=ABSENT):
    def ess(f, other):
        e = {'spec': {'other': other}}
        if f != ABSENT:
            e['spec']['f'] = f
        m = {}
        if label != ABSENT:
            m['labels'] = {'l': label}
        if label2 != ABSENT:
            m.setdefault('labels', {})['l2'] = label2
        if ann != ABSENT:
            m['annotations'] = {'a': ann}
        if ann2 != ABSENT:
            m.setdefault('annotations', {})['a2'] = ann2
        if m:
            e['metadata'] = m
        return e
    new = ess(new_f, 2 if other_changed else 1)
    old = None if kind == 0 else ess(old_f, 1)
    meta = dict(new.get('metadata', {}))
    raw = base_body(spec=new['spec'], **meta)
    reason = causes.Reason.CREATE if kind == 0 else causes.Reason.UPDATE
    return causes.ChangingCause(
        resource=make_resource(), indices={}, logger=logging.getLogger('x'), patch=patches.Patch(), memo=ephemera.Memo(),
        body=bodies.Body(raw), initial=False, reason=reason, diff=diffs.diff(old, new), old=old, new=new)


def h_match(lc: int, ac: int, use_field: bool, vc: int, oc: int, nc: int, when: int, dup: int,
            label: int, ann: int, old_f: int, new_f: int, other_changed: bool, label2: int, ann2: int) -> bool:
    """
    pre: 0 <= lc <= 5 and 0 <= ac <= 5 and 0 <= vc <= 5 and 0 <= oc <= 5 and 0 <= nc <= 5
    pre: 0 <= when <= 2 and 0 <= dup <= 3
    pre: 0 <= label <= 2 and 0 <= ann <= 2 and 0 <= old_f <= 3 and 0 <= new_f <= 3 and 0 <= label2 <= 2 and 0 <= ann2 <= 2
    post: _ == True
    """
    vkopf.begin_path()
    c = vkopf.cell()
    kind = c['kind']
    lc, when, dup = vkopf.pin('lc', lc), vkopf.pin('when', when), vkopf.pin('dup', dup)
    ac, use_field = vkopf.pin('ac', ac), vkopf.pin('use_field', use_field)
    vc, oc, nc = vkopf.pin('vc', vc), vkopf.pin('oc', oc), vkopf.pin('nc', nc)
    lc2, ac2 = c.get('lc2', 0), c.get('ac2', 0)      # a second criterion of the same filter (declared after the first)
    if not lc2:
        label2 = 0
    if not ac2:
        ann2 = 0
    if vc and (oc or nc):
        return True          # value= is mutually exclusive with old=/new= (rejected by the decorator)
    if kind == 0 and (oc or nc):
        return True
    if not use_field and (vc or oc or nc):
        return True
    if kind == 2:
        use_field = True
    if kind == 0:
        old_f = 0
    if kind != 0 and not other_changed and old_f == new_f:
        return True          # no essential change -> no update cause at all
    # known finding F9: non-update handlers also check the (absent) old state of a creation cause
    f9 = kind == 0 and use_field and vc in (3, 5) and new_f != 0
    if c.get('exclude_known', True) and f9:
        return True
    if c.get('only_f9') and not f9:
        return True
    registry = build(kind, lc, ac, use_field, vc, oc, nc, when, dup, lc2, ac2)
    cause = make_cause(kind, META_VALS[label], META_VALS[ann], VALS[old_f], VALS[new_f], other_changed, META_VALS[label2], META_VALS[ann2])
    got = sorted(h.id.split('/')[0] for h in registry._changing.get_handlers(cause))
    want_one = spec_match(kind, lc, ac, use_field, vc, oc, nc, when, META_VALS[label], META_VALS[ann], VALS[old_f], VALS[new_f], other_changed)
    # "the resource must satisfy all of the criteria" -- every key of labels=/annotations=
    want_one = want_one and spec_value(lc2, META_VALS[label2]) and spec_value(ac2, META_VALS[ann2])
    want = [] if not want_one else (['h', 'h2'] if dup == 2 else ['g', 'h'] if dup == 3 else ['h'])
    if want:
        vkopf.witness('matched')
    else:
        vkopf.witness('rejected')
    return vkopf.verdict(got == want)


def h_field_pipeline(has_lbl: bool, has_status: bool, spec_v: int, what: int, fi: int) -> bool:
    """
    pre: 0 <= what <= 6 and 0 <= fi <= 5
    post: _ == True
    """
    # the matching functions above take hand-made old/new views; this one goes through the whole pipeline (diff-base storage,
    # extra fields of the registry, cause detection, field narrowing): a handler on a field -- also a system-metadata or status
    # field -- runs exactly when that field's value differs from the last-handled one (shared with C04 h_field_view)
    return _c04.field_view_impl(has_lbl, has_status, spec_v, what, fi)


def obligations():
    obs = []
    # (kind, lc, ac, use_field, vc, oc, nc, when, dup): the criteria of the declaration are pinned per cell; the object's
    # label/annotation/old/new field values and "something else changed" stay symbolic.
    def cell(kind, lc, ac, uf, vc, oc, nc, when, dup, tiers, extra=None):
        c = {'kind': kind, 'pin': {'lc': lc, 'ac': ac, 'use_field': uf, 'vc': vc, 'oc': oc, 'nc': nc, 'when': when, 'dup': dup}}
        c.update(extra or {})
        return Ob('h_match', c, tiers=tiers, timeout=600)
    quick = [(1, 0, 0, True, 0, 0, 0, 0, 0), (1, 0, 0, True, 1, 0, 0, 0, 0), (1, 0, 0, True, 3, 0, 0, 0, 2), (1, 0, 0, True, 0, 3, 2, 0, 0),
             (1, 0, 0, True, 0, 5, 4, 0, 0), (1, 1, 3, False, 0, 0, 0, 1, 2), (1, 4, 5, True, 5, 0, 0, 0, 1), (1, 2, 0, True, 0, 1, 0, 2, 0),
             (0, 0, 0, True, 2, 0, 0, 0, 0), (0, 5, 1, False, 0, 0, 0, 0, 1), (0, 3, 0, True, 1, 0, 0, 1, 0), (0, 0, 4, True, 4, 0, 0, 0, 0),
             (2, 0, 0, True, 0, 2, 3, 0, 0), (2, 4, 2, True, 4, 0, 0, 0, 2), (2, 0, 0, True, 0, 0, 5, 1, 0)]
    for q in quick:
        obs.append(cell(*q, tiers=('quick',)))
    # two criteria in one filter: the second one counts whatever the first one says (callback first, and the other way round)
    obs.append(cell(1, 1, 0, True, 0, 0, 0, 0, 3, tiers=('quick', 'thorough')))
    obs.append(cell(0, 0, 2, False, 0, 0, 0, 1, 3, tiers=('quick', 'thorough')))
    obs.append(cell(1, 4, 0, False, 0, 0, 0, 0, 0, tiers=('quick',), extra={'lc2': 1}))
    obs.append(cell(0, 1, 5, False, 0, 0, 0, 0, 0, tiers=('quick',), extra={'lc2': 5, 'ac2': 3}))
    for kind in (0, 1):
        for lc in (1, 2, 3, 4, 5):
            for lc2 in (1, 3, 4):
                obs.append(cell(kind, lc, 0, False, 0, 0, 0, 0, 0, tiers=('thorough',), extra={'lc2': lc2}))
                obs.append(cell(kind, 0, lc, False, 0, 0, 0, 0, 0, tiers=('thorough',), extra={'ac2': lc2}))
    obs.append(Ob('h_match', {'kind': 1}, tiers=('quick', 'thorough'), timeout=300, twins=['matched', 'rejected'], main=False))
    fields = [(vc, 0, 0) for vc in range(6)] + [(0, oc, nc) for oc in range(6) for nc in range(6) if oc or nc]
    for kind in (0, 1, 2):
        for (vc, oc, nc) in fields:
            if kind == 0 and (oc or nc):
                continue
            obs.append(cell(kind, 0, 0, True, vc, oc, nc, 0, 0, tiers=('thorough',)))
        for lc in range(6):
            for ac in (0, 2, 5):
                obs.append(cell(kind, lc, ac, False, 0, 0, 0, 0, 0, tiers=('thorough',)))
        for when in (1, 2):
            for dup in (0, 1, 2, 3):
                obs.append(cell(kind, 1, 0, True, 1, 0, 0, when, dup, tiers=('thorough',)))
    obs.append(Ob('h_match', {'kind': 0, 'exclude_known': False, 'only_f9': True}, expect='counterexample', finding='F9', timeout=300))
    obs += split(Ob('h_field_pipeline', {'progress': 'annotations', 'diffbase': 'annotations', 'v1': True}, timeout=900, twins=['field_view']),
                 fi=[4, 5])
    obs += split(Ob('h_field_pipeline', {'progress': 'status', 'diffbase': 'status', 'v1': True}, timeout=900, tiers=('thorough',)), fi=[0, 1, 4, 5])
    return obs
