"""C07 — change handlers never run on a view older than the operator's own last write.

H1 worker bookkeeping: real queueing.watcher/worker on SymLoop with a stub processor that returns a scripted "patched
    version or None" and records the consistency_time it is given; symbolic gaps/durations/timeouts, event versions
    chosen relative to the returned ones.
H2 processor step: real process_resource_event with consistency_time = now + delta (delta symbolic), stream pressure set
    at a symbolic instant or never: change handlers run iff the view is consistent or the timeout elapsed un-woken;
    raw-event handlers, indexers, daemons are not delayed; the finalizer is never released in the inconsistent state.
H3 composition lemma (z3): G(H1) and H2 and stream order => every change-handler run at t on view v has v >= p or t >= tp+T.
"""
import asyncio
import json
import logging

import kopf
import vkopf
from vkopf.driver_api import Ob, split
from vkopf.symloop import SymLoop, Deadlock, Diverged, Livelock, cancel_all_others
from vkopf.world import World, base_body, FIN, LHC, PLURAL

from kopf._cogs.aiokits import aiotime
from kopf._cogs.configs import configuration
from kopf._cogs.structs import references
from kopf._core.actions import application
from kopf._core.reactor import processing, queueing

logging.disable(logging.CRITICAL)
ENCODED = [queueing.worker, queueing.watcher, application.patch_and_check, processing.process_resource_causes, processing.process_resource_event,
           application.apply, aiotime.sleep]
META = {
    'bounds': 'H1: 2 events of one object (3 events per cell do not exhaust within 20 CPU-minutes and are not claimed); per event a version in {stale, echo of patch 1, echo of patch 2}; per processing a returned '
              'version in {None, p1, p2}; symbolic unbounded gaps, durations, consistency timeout T>=0, idle timeout>=1, 4 tie-breaks. '
              'H2: one event; delta symbolic >= 0; pressure at a symbolic instant or never; patch initially empty or carrying a '
              'remaining transformation (adding the finalizer, or -- deleting -- the release carried over from a 422); deletion with/without pending delete handler. '
              'H1 also: 3 events with all arrivals at one instant (one PATCH, then two queued events). '
              'H4 (h_composed): the real watcher+worker+process_resource_event+patching on one object over the fake server whose watch '
              'stream is an ordered reader of the change log; symbolic unbounded consistency timeout, per-event delivery lag, request latency '
              'before/after the server applies a PATCH, instant of 1-2 foreign spec edits; a cell pins some of these instants to 0 (regime) and '
              'the idle timeout to 1 s.',
    'outside': 'h_composed with all instants symbolic at once (one cell = one regime); more than 2 foreign writes; several objects',
    'stubs': ['watching.infinite_watch -> scripted generator', 'processor stub (H1)', 'api.patch -> FakeServer (H2)'],
    'assumptions': ['watch events of one object are delivered in server order (ordered log with arbitrary lag)'],
}
RESOURCE = references.Resource('g', 'v1', 'things', namespaced=True)
VERS = ['stale', 'p1', 'p2']
RETS = [None, 'p1', 'p2']


def run_worker(gaps, durs, vers, rets, T, idle, ties=()):
    loop = SymLoop()
    calls = []     # (t_start, consistency_time, version, returned, t_end)

    async def fake_stream(**_):
        for i in range(len(gaps)):
            if gaps[i] > 0:
                await asyncio.sleep(gaps[i])
            yield {'type': 'MODIFIED', 'object': {'metadata': {'uid': 'u', 'resourceVersion': VERS[vers[i]], 'seq': i}}}
        await asyncio.Event().wait()

    async def processor(*, raw_event, consistency_time=None, **_):
        i = raw_event['object']['metadata']['seq']
        t0 = loop.time()
        if durs[i] > 0:
            await asyncio.sleep(durs[i])
        calls.append((t0, consistency_time, raw_event['object']['metadata']['resourceVersion'], RETS[rets[i]], loop.time()))
        return RETS[rets[i]]

    settings = configuration.OperatorSettings()
    settings.queueing.idle_timeout = idle
    settings.persistence.consistency_timeout = T
    total = sum(gaps) + sum(durs) + (len(gaps) + 1) * (idle + T) + 10
    settings.queueing.exit_timeout = total

    async def main():
        orig = queueing.watching.infinite_watch
        queueing.watching.infinite_watch = fake_stream
        try:
            task = asyncio.create_task(queueing.watcher(namespace=None, settings=settings, resource=RESOURCE, processor=processor))
            await asyncio.sleep(total)
            task.cancel()
            try:
                await task
            except asyncio.CancelledError:
                pass
        finally:
            queueing.watching.infinite_watch = orig
    loop.run(main(), ties=ties)
    return calls


def h_worker(g0: int, g1: int, g2: int, d0: int, d1: int, d2: int, v0: int, v1: int, v2: int, r0: int, r1: int, r2: int,
             T: int, idle: int, t0: bool, t1: bool, t2: bool, t3: bool) -> bool:
    """
    pre: g0 >= 0 and g1 >= 0 and g2 >= 0 and d0 >= 0 and d1 >= 0 and d2 >= 0
    pre: 0 <= v0 <= 2 and 0 <= v1 <= 2 and 0 <= v2 <= 2 and 0 <= r0 <= 2 and 0 <= r1 <= 2 and 0 <= r2 <= 2
    pre: T >= 0 and idle >= 1
    post: _ == True
    """
    vkopf.begin_path()
    r0, r1, v1, v2 = vkopf.pin('r0', r0), vkopf.pin('r1', r1), vkopf.pin('v1', v1), vkopf.pin('v2', v2)
    g1, g2, r2 = vkopf.pin('g1', g1), vkopf.pin('g2', g2), vkopf.pin('r2', r2)
    n = vkopf.cell('n', 3)
    g0 = 0                     # the first arrival is the origin of time (w.l.o.g.)
    durs = [d0, d1, d2][:n]
    durs[-1] = 0               # the duration of the last processing is unobservable (nothing follows it)
    try:
        calls = run_worker([g0, g1, g2][:n], durs, [v0, v1, v2][:n], [r0, r1, r2][:n], T, idle, ties=[t0, t1, t2, t3])
    except (Deadlock, Diverged, Livelock):
        return vkopf.verdict(False)
    if len(calls) != n:
        return vkopf.verdict(False)
    ok = True
    expected, ct = None, None
    for (ts, got_ct, ver, ret, te) in calls:
        # the patched version coming back through the stream ends the waiting -- and only that does
        if expected is not None and ver == expected:
            expected, ct = None, None
            vkopf.witness('echo_arrived')
        if ct is not None and got_ct is None and ts >= ct:
            expected, ct = None, None       # the barrier expired and the idle worker retired: a fresh worker, consistency assumed
            vkopf.witness('expired')
        if got_ct != ct:
            ok = False                      # in particular: the worker never retires (forgets) while a version is awaited
        if ct is not None:
            vkopf.witness('awaiting')
        # every new PATCH restarts the barrier: T after the patch returned
        if ret is not None and T:
            expected, ct = ret, te + T
    return vkopf.verdict(ok)


# --------------------------------------------------------------------------------------------------- H2
def run_step(delta, has_ct, pressure_at, remaining, deleting, with_delete_handler, handled, changed, ev_result=False):
    meta = {'annotations': {}}
    if deleting:
        meta['deletionTimestamp'] = '2020-01-01T00:00:00Z'
        meta['finalizers'] = [FIN]
    elif not remaining:
        meta['finalizers'] = [FIN]      # the daemon requires it: already in place unless its addition is the pending patch
    if handled:
        meta['annotations'][LHC] = json.dumps({'spec': {'x': 1}}) + '\n'
    w = World(base_body(spec={'x': 2 if changed else 1}, **meta), tmode='symbolic')
    loop = w.loop
    log = []

    @kopf.on.event(PLURAL, id='ev', registry=w.registry)
    async def ev(**_):
        log.append(('event', loop.time()))
        if ev_result:
            return {'seen': 'y'}        # a result of a raw-event handler: something is accumulated before the barrier

    @kopf.index(PLURAL, id='idx', registry=w.registry)
    async def idx(**_):
        log.append(('index', loop.time()))
        return 1

    @kopf.daemon(PLURAL, id='dm', registry=w.registry)
    async def dm(stopped, **_):
        log.append(('daemon', loop.time()))
        await stopped.wait()

    @kopf.on.create(PLURAL, id='c', registry=w.registry)
    async def c(**_): log.append(('change', loop.time()))

    @kopf.on.update(PLURAL, id='u', registry=w.registry)
    async def u(**_): log.append(('change', loop.time()))

    if with_delete_handler:
        @kopf.on.delete(PLURAL, id='d', registry=w.registry)
        async def d(**_): log.append(('change', loop.time()))
    w.indexers.ensure(w.registry._indexing.get_all_handlers())
    w.settings.background.instant_exit_timeout = None

    async def main():
        pressure = asyncio.Event()
        if remaining:
            from kopf._cogs.structs import patches, finalizers
            import functools
            mem = await w.memories.recall(w.server.obj)
            # the transformation a 422-rejected JSON-patch left behind: adding the finalizer, or (deleting) releasing the object
            # after the delete handlers had finished in the previous cycle
            fn = finalizers.allow_deletion if deleting else finalizers.block_deletion
            mem.remaining_patch = patches.Patch(fns=[functools.partial(fn, finalizer=FIN)])
        start = 100
        await asyncio.sleep(start)
        if pressure_at is not None:
            loop.call_later(pressure_at, pressure.set)
        ct = loop.time() + delta if has_ct else None
        await w.process('MODIFIED', stream_pressure=pressure, consistency_time=ct)
        t_end = loop.time()
        await asyncio.sleep(0)
        fins = (w.server.obj or {}).get('metadata', {}).get('finalizers', []) if w.server.obj else None
        gone = w.server.obj is None
        await cancel_all_others()
        return start, t_end, fins, gone
    start, t_end, fins, gone = w.run(main())
    return log, start, t_end, fins, gone, w


def h_step(delta: int, has_ct: bool, has_pressure: bool, pressure_at: int, remaining: bool, deleting: bool,
           with_delete_handler: bool, handled: bool, changed: bool) -> bool:
    """
    pre: delta >= 0 and pressure_at >= 0
    post: _ == True
    """
    vkopf.begin_path()
    remaining, deleting = vkopf.pin('remaining', remaining), vkopf.pin('deleting', deleting)
    has_ct, handled, has_pressure = vkopf.pin('has_ct', has_ct), vkopf.pin('handled', handled), vkopf.pin('has_pressure', has_pressure)
    try:
        ev_result = vkopf.cell().get('ev_result', False)
        log, start, t_end, fins, gone, w = run_step(delta, has_ct, pressure_at if has_pressure else None, remaining,
                                                      deleting, with_delete_handler, handled, changed, ev_result=ev_result)
    except (Deadlock, Diverged, Livelock):
        return vkopf.verdict(False)
    ok = True
    times = {k: [t for kk, t in log if kk == k] for k in ('event', 'index', 'daemon', 'change')}
    # raw-event handlers, indexing, daemons are not delayed by the barrier
    if times['event'] != [start] or times['index'] != [start]:
        ok = False
    if not deleting and times['daemon'] != [start]:
        ok = False
    woken = has_pressure and pressure_at < delta
    # with something accumulated before the barrier the framework does not wait at all: it delivers the patch and leaves the
    # change handlers to a later, consistent cycle
    consistent = (not has_ct) or (not woken and not ev_result)
    something_to_handle = (not handled) or changed or deleting
    if times['change']:
        vkopf.witness('change_ran')
        t = times['change'][0]
        # never before the barrier: either consistent from the start, or the timeout elapsed un-woken
        if has_ct and t < start + delta:
            ok = False
        if remaining:
            ok = False            # a pending (carried-forward) patch means the view is stale by construction
        if not consistent:
            ok = False
    else:
        if consistent and not remaining and something_to_handle and not (deleting and not with_delete_handler):
            ok = False            # ... and not delayed for longer than that
        if has_ct and woken:
            vkopf.witness('woken_skipped')
    # the finalizer is never released in the inconsistent state (a release carried over from the previous, consistent cycle
    # is delivered as it is -- and no delete handler runs a second time for it)
    if deleting and not remaining and not consistent and not gone and FIN not in (fins or []):
        ok = False
    if deleting and not remaining and not consistent and gone:
        ok = False
    if deleting and remaining:
        vkopf.witness('release_carried_over')
        if not gone:
            ok = False
    return vkopf.verdict(ok)


def h_own_write_version(d: int, wake: bool, wake_at: int, second_fails: bool) -> bool:
    """
    pre: d >= 0 and wake_at >= 0
    post: _ == True
    """
    vkopf.begin_path()
    # The worker can only wait for the echo of a write whose version the processor reports back: every processing cycle
    # must return the resourceVersion of the LAST write it made (incl. the dummy touch after a slept delay).
    w = World(base_body(), tmode='symbolic')
    from vkopf.loop import configure_storage
    configure_storage(w.settings, 'status')       # records as plain mappings: the symbolic timestamps survive (no JSON text)
    loop = w.loop
    calls = []

    @kopf.on.create(PLURAL, id='c', registry=w.registry)
    async def c(retry, **_):
        calls.append(retry)
        if retry == 0 or (second_fails and retry == 1):
            raise kopf.TemporaryError('later', delay=d)

    async def main():
        results = []
        pressure = asyncio.Event()
        for i in range(3):
            if w.server.obj is None:
                break
            before = len(w.server.requests)
            if wake and i == 1:
                loop.call_later(wake_at, pressure.set)
            rv = await w.process('ADDED' if i == 0 else 'MODIFIED', stream_pressure=pressure)
            made = [r for r in w.server.requests[before:] if r['result'] == 200]
            results.append((rv, made[-1]['rv'] if made else None))
            pressure.clear()
        await cancel_all_others()
        return results
    results = w.run(main())
    ok = True
    for rv, last in results:
        if last is not None:
            vkopf.witness('wrote')
            if rv != str(last):
                ok = False
        elif rv is not None:
            ok = False
    return vkopf.verdict(ok)


# --------------------------------------------------------------------------------------------------- H4
class _Log(list):
    """The server's change log; every append is stamped with the virtual time and wakes the watch stream."""
    def __init__(self, clock):
        super().__init__()
        self.times, self.clock, self.new = [], clock, None

    def append(self, item):
        super().append(item)
        self.times.append(self.clock())
        if self.new is not None:
            self.new.set()


def run_composed(T, idle, lags, f_at, lat_a, lat_b, nf=1, f2_gap=0, ties=(), with_daemon=False):
    """The REAL watcher + worker + process_resource_event + patching over the FakeServer; the watch stream is an ORDERED
    reader of the server's change log that delivers entry i not before `write time + lags[i]` (and never before entry i-1).
    Every API request takes lat_a before and lat_b after the server applies it. A foreign writer edits the spec at f_at."""
    from vkopf.loop import configure_storage
    w = World(base_body(), tmode='symbolic')
    configure_storage(w.settings, 'status')
    loop = w.loop
    w.settings.persistence.consistency_timeout = T
    w.settings.queueing.idle_timeout = idle
    w.server.log = _Log(lambda: loop._now)
    trace = []          # ('run', t, view_version, kind) and ('patch', t_returned, version) in their real order
    raw = []            # raw-event handler: (t, version)

    @kopf.on.event(PLURAL, id='ev', registry=w.registry)
    async def ev(body, **_):
        raw.append((loop.time(), int(body['metadata']['resourceVersion'])))

    @kopf.on.create(PLURAL, id='c', registry=w.registry)
    async def c(body, **_):
        trace.append(('run', loop.time(), int(body['metadata']['resourceVersion']), 'create'))

    @kopf.on.update(PLURAL, id='u', registry=w.registry)
    async def u(body, **_):
        trace.append(('run', loop.time(), int(body['metadata']['resourceVersion']), 'update'))

    orig_patch = w.server.patch

    async def slow_patch(url, **kw):
        if lat_a > 0:
            await asyncio.sleep(lat_a)
        r = await orig_patch(url, **kw)
        if lat_b > 0:
            await asyncio.sleep(lat_b)
        trace.append(('patch', loop.time(), int(r['metadata']['resourceVersion'])))
        return r
    w.server.patch = slow_patch
    initial = {'type': 'ADDED', 'object': __import__('copy').deepcopy(w.server.obj)}
    deliveries = []

    async def fake_stream(**_):
        log = w.server.log
        log.new = asyncio.Event()
        deliveries.append((loop.time(), int(initial['object']['metadata']['resourceVersion'])))
        yield initial
        i = 0
        while True:
            while i >= len(log):
                log.new.clear()
                await log.new.wait()
            rv, snap = log[i]
            due = log.times[i] + lags[i if i < len(lags) else len(lags) - 1]
            if due > loop.time():
                await asyncio.sleep(due - loop.time())
            deliveries.append((loop.time(), rv))
            yield {'type': 'MODIFIED', 'object': __import__('copy').deepcopy(snap)}
            i += 1

    async def processor(*, raw_event, **kw):
        return await w.process(raw_event['type'], raw_event['object'], **kw)

    def foreign(k):
        def mutate(obj):
            obj['spec']['x'] = 2 + k
        return mutate
    lag_sum = 0
    for l in lags:
        lag_sum = lag_sum + l
    horizon = f_at + f2_gap + lag_sum + 6 * (lat_a + lat_b) + 3 * T + 3 * idle + 10
    w.settings.queueing.exit_timeout = 1

    async def main():
        orig = queueing.watching.infinite_watch
        queueing.watching.infinite_watch = fake_stream
        try:
            task = asyncio.create_task(queueing.watcher(namespace=None, settings=w.settings, resource=w.resource, processor=processor))
            loop.call_later(f_at, w.server.write, foreign(0))
            if nf > 1:
                loop.call_later(f_at + f2_gap, w.server.write, foreign(1))
            await asyncio.sleep(horizon)
            task.cancel()
            try:
                await task
            except asyncio.CancelledError:
                pass
            await cancel_all_others()
        finally:
            queueing.watching.infinite_watch = orig
    w.run(main(), ties=ties, max_steps=20_000)
    return trace, raw, deliveries, w


def h_composed(T: int, idle: int, lag0: int, lag1: int, lag2: int, lag3: int, f_at: int, f2_gap: int, lat_a: int, lat_b: int,
               t0: bool, t1: bool, t2: bool) -> bool:
    """
    pre: T >= 0 and idle >= 1 and lag0 >= 0 and lag1 >= 0 and lag2 >= 0 and lag3 >= 0 and f_at >= 0 and f2_gap >= 0
    pre: lat_a >= 0 and lat_b >= 0
    post: _ == True
    """
    vkopf.begin_path()
    c = vkopf.cell()
    nf = c.get('nf', 1)
    zero = c.get('zero', [])          # instants pinned to 0 in this cell (the regime), the rest stays symbolic
    vals = {'lag0': lag0, 'lag1': lag1, 'lag2': lag2, 'lag3': lag3, 'lat_a': lat_a, 'lat_b': lat_b, 'f_at': f_at, 'f2_gap': f2_gap}
    for z in zero:
        vals[z] = 0
    if c.get('same_lag'):
        vals['lag1'] = vals['lag2'] = vals['lag3'] = vals['lag0']
    if c.get('idle') is not None:
        idle = c['idle']
    ties = [t0, t1, t2][:c.get('ties', 3)]
    try:
        trace, raw, deliveries, w = run_composed(T, idle, [vals['lag0'], vals['lag1'], vals['lag2'], vals['lag3']], vals['f_at'],
                                                 vals['lat_a'], vals['lat_b'], nf=nf, f2_gap=vals['f2_gap'], ties=ties)
    except (Deadlock, Diverged, Livelock):
        return vkopf.verdict(False)
    ok = True
    patches = []
    for item in trace:
        if item[0] == 'patch':
            patches.append((item[1], item[2]))
            continue
        _, t, v, kind = item
        for (tp, p) in patches:
            # a change handler that starts after the operator's own write returned: on a view that includes the write,
            # or not sooner than T after it
            if v < p:
                vkopf.witness('stale_view_after_timeout')
                if not (t >= tp + T):
                    ok = False
            else:
                vkopf.witness('consistent_view')
    # raw-event handlers are not delayed: every delivered event is seen at its delivery instant unless the worker was busy
    # (then at the end of the previous processing); here only: every delivered version is seen, in order, exactly once
    if [v for _, v in raw] != [v for _, v in deliveries]:
        ok = False
    # quiescence: the final object is handled (no pending change) -- the barrier delays, it never drops
    final = w.server.obj
    import json as _json
    lhc = (final.get('status', {}).get('kopf', {}) or {}).get('last-handled-configuration')
    if lhc is None or _json.loads(lhc).get('spec') != final['spec']:
        ok = False
    runs = [i for i in trace if i[0] == 'run']
    if not runs or runs[0][3] != 'create':
        ok = False
    return vkopf.verdict(ok)


def lemma(cell=None):
    """H3: the composition lemma, discharged by z3 (engine 'smt')."""
    import time
    import z3
    t0 = time.time()
    s = z3.Solver()
    tp, T, t, ct, p, v, echo_seen = z3.Reals('tp T t ct p v echo_seen_at')
    got_ct_none = z3.Bool('got_ct_none')
    # G (H1): a processor call after the PATCH (p at tp) gets ct == tp+T unless an event with version == p was dequeued before
    # H2: change handlers run at t only if ct is None or t >= ct
    # stream order: an event with version == p dequeued => every later view has version >= p
    s.add(T >= 0, t >= tp)
    s.add(z3.Implies(z3.Not(got_ct_none), ct == tp + T))            # G
    s.add(z3.Implies(got_ct_none, v >= p))                           # G + order: the echo was dequeued before this view
    s.add(z3.Or(got_ct_none, t >= ct))                               # H2
    s.add(z3.Not(z3.Or(v >= p, t >= tp + T)))                        # negated conclusion
    r = s.check()
    return {'status': 'confirmed' if str(r) == 'unsat' else ('counterexample' if str(r) == 'sat' else 'inconclusive'),
            'paths': 1, 'harness_calls': 1, 'nontrivial_paths': 1, 'queries': 1, 'solver_s': round(time.time() - t0, 3),
            'message': f'z3: {r}', 'tags': {'lemma': 1}}


def obligations():
    B = [False, True]
    obs = []
    for (r0, v1) in ((1, 1), (1, 0), (2, 1), (0, 2)):
        obs.append(Ob('h_worker', {'n': 2, 'pin': {'r0': r0, 'v1': v1}}, tiers=('quick',), timeout=900))
    # three events are within reach only with the arrivals pinned: one PATCH, then two more events of the object queued at once
    # (both stale / the second one the echo): the barrier set by the PATCH holds for EVERY stale event until the echo or the timeout
    for (v1, v2) in ((0, 0), (0, 1)):
        obs.append(Ob('h_worker', {'n': 3, 'pin': {'r0': 1, 'r1': 0, 'r2': 0, 'v1': v1, 'v2': v2, 'g1': 0, 'g2': 0}}, tiers=('quick', 'thorough'), timeout=900))
    obs.append(Ob('h_worker', {'n': 2}, tiers=('quick', 'thorough'), timeout=600, twins=['echo_arrived', 'awaiting', 'expired'], main=False))
    obs += split(Ob('h_worker', {'n': 2}, timeout=1500, tiers=('thorough',)), r0=[0, 1, 2], v1=[0, 1, 2])
    # (three events per cell do not exhaust: > 1600 paths after 20 CPU-minutes for one fully pinned cell -- outside the claim)
    for (remaining, deleting, has_ct, handled, has_pressure) in ((False, False, True, True, True), (False, False, True, False, False),
                                                                  (True, False, True, True, True), (False, True, True, True, True),
                                                                  (False, False, False, True, False), (True, True, False, True, False)):
        obs.append(Ob('h_step', {'pin': {'remaining': remaining, 'deleting': deleting, 'has_ct': has_ct, 'handled': handled,
                                         'has_pressure': has_pressure}}, tiers=('quick',), timeout=900, path_timeout=200))
    obs.append(Ob('h_step', {}, tiers=('quick', 'thorough'), timeout=600, path_timeout=200, twins=['change_ran', 'woken_skipped', 'release_carried_over'], main=False))
    for (deleting, handled) in ((False, True), (True, True)):
        obs.append(Ob('h_step', {'ev_result': True, 'pin': {'remaining': False, 'deleting': deleting, 'has_ct': True, 'handled': handled,
                                                           'has_pressure': False}}, tiers=('quick',), timeout=900, path_timeout=200))
    obs += split(Ob('h_step', {'ev_result': True}, timeout=1500, path_timeout=200, tiers=('thorough',)), remaining=[False], deleting=B, has_ct=B,
                 handled=B, has_pressure=B)
    obs += split(Ob('h_step', {}, timeout=1500, path_timeout=200, tiers=('thorough',)), remaining=B, deleting=B, has_ct=B, handled=B, has_pressure=B)
    obs.append(Ob('h_own_write_version', {}, timeout=900, path_timeout=200, twins=['wrote']))
    obs.append(Ob('lemma', {}, engine='smt', timeout=60))
    # H4: the composed run; a cell pins some instants to 0 (the regime), the others stay unbounded symbolic integers
    obs.append(Ob('h_composed', {'nf': 1, 'same_lag': True, 'idle': 1, 'ties': 0, 'zero': ['f_at', 'lat_b', 'f2_gap']}, tiers=('quick',), timeout=900, path_timeout=200,
                  twins=['stale_view_after_timeout', 'consistent_view']))
    # thorough: other regimes; with the idle timeout and the tie-breaks symbolic as well a regime does not exhaust within the
    # 15-minute cap (measured: 4 of 5), so they are pinned here too (idle = 1 s, ties in insertion order) and three instants stay symbolic
    for zero in (['lat_a', 'lat_b', 'f2_gap', 'lag1', 'lag2', 'lag3'], ['f_at', 'lat_a', 'f2_gap', 'lag2', 'lag3'], ['lat_b', 'f2_gap', 'lag1', 'lag2', 'lag3'],
                 ['f_at', 'f2_gap', 'lag0', 'lag2', 'lag3']):
        obs.append(Ob('h_composed', {'nf': 1, 'idle': 1, 'ties': 0, 'zero': zero}, tiers=('thorough',), timeout=900, path_timeout=200))
    # two foreign writes between the operator's PATCH and its echo (the barrier must survive every stale event)
    obs.append(Ob('h_composed', {'nf': 2, 'same_lag': True, 'idle': 1, 'ties': 0, 'zero': ['f_at', 'lat_b', 'f2_gap']}, tiers=('thorough',), timeout=900, path_timeout=200))
    return obs
