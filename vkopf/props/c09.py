"""C09 — daemon/timer lifecycle: one instance, started on match, stopped in stages.

H1 (stop-stage step): real daemons.stop_daemons on one Daemon from an arbitrary stop age: flags, cancel(), delays.
H1b: real daemons.stop_daemon (operator exit/pause path) under SymLoop with a symbolic daemon reaction.
H2 (history): real process_resource_event (spawn/match/pause/stop) + FakeServer + real daemon_killer under SymLoop;
    symbolic script of label toggles, deletions (graceful / DELETED without deletionTimestamp), pause, exit at
    symbolic instants; oracle from the enter/exit log of the user function + loop watchdogs (Livelock/Diverged).
"""
import asyncio
import copy
import logging

import kopf
import vkopf
from vkopf.driver_api import Ob, split, sample
from vkopf.symloop import SymLoop, Deadlock, Diverged, Livelock, cancel_all_others
from vkopf.world import World, base_body, FIN, LHC, PLURAL, make_resource

from kopf._cogs.aiokits import aiotoggles
from kopf._cogs.configs import configuration
from kopf._core.engines import daemons
from kopf._core.intents import handlers as handlers_, stoppers
from kopf._core.reactor import processing

logging.disable(logging.CRITICAL)
ENCODED = [daemons.stop_daemons, daemons.stop_daemon, daemons.spawn_daemons, daemons.match_daemons, daemons.pause_daemons,
           daemons.daemon_killer, daemons._runner, daemons._daemon, daemons._timer, daemons._wait_for_instant_exit,
           processing.process_spawning_cause]
META = {
    'bounds': 'h_stop_stage starts from an arbitrary earlier stage of the termination (signalled / cancelled flags already set). H1: one daemon; symbolic (flag already set at symbolic age>=0, backoff None|>=0, timeout None|>=0, task done). '
              'H1b: one daemon; reaction in {obeys flag after r, exits on cancel after r, ignores both}; symbolic backoff/timeout/r. '
              'H2: one object, one daemon or timer (interval/idle cells); <=3 script steps from {label off, label on, essential edit, '
              'mark deletion, DELETED without deletionTimestamp, pause on, pause off, operator exit} at symbolic gaps (unbounded for the '
              'daemon except gaps spent in the paused state: <= 3 s; <= 8/12 s for timers); horizon 50 s after the last step.',
    'outside': 'a step arriving while the processing of the previous one is still sleeping over a stop delay (the script waits for each '
               'processing to return; only the pause toggle acts mid-processing); sync (threaded) daemons; >1 object; real wall-clock watchdog (replaced by SymLoop Livelock/Diverged budgets)',
    'stubs': ['api.patch -> FakeServer'],
    'assumptions': [],
}
R = stoppers.DaemonStoppingReason


def h_stop_stage(already: bool, age: int, has_bo: bool, bo: int, has_to: bool, to: int, done: bool, is_timer: bool,
                 pre_signalled: bool = False, pre_cancelled: bool = False) -> bool:
    """
    pre: age >= 0 and bo >= 0 and to >= 0
    post: _ == True
    """
    vkopf.begin_path()
    loop = SymLoop(start=1000)
    settings = configuration.OperatorSettings()
    settings.background.instant_exit_timeout = None
    settings.background.instant_exit_zero_time_cycles = 3
    settings.background.cancellation_polling = 7
    cancelled = []
    if is_timer:
        has_bo = has_to = False

    async def fn(**_):
        pass
    if is_timer:
        handler = handlers_.TimerHandler(fn=fn, id='t', param=None, errors=None, timeout=None, retries=None, backoff=None,
                                         selector=None, labels=None, annotations=None, when=None, field=None, value=None,
                                         requires_finalizer=True, initial_delay=None, sharp=None, idle=None, interval=1)
    else:
        handler = handlers_.DaemonHandler(fn=fn, id='d', param=None, errors=None, timeout=None, retries=None, backoff=None,
                                          selector=None, labels=None, annotations=None, when=None, field=None, value=None,
                                          requires_finalizer=True, initial_delay=None,
                                          cancellation_backoff=bo if has_bo else None, cancellation_timeout=to if has_to else None,
                                          cancellation_polling=None)

    async def main():
        async def body():
            if done:
                return
            while True:
                try:
                    await asyncio.Event().wait()
                except asyncio.CancelledError:
                    cancelled.append(loop.time())       # a daemon that ignores everything
        task = asyncio.create_task(body())
        await asyncio.sleep(0)
        stopper = stoppers.DaemonStopper()
        if already:
            stopper.set(reason=R.RESOURCE_DELETED)
            stopper.when = loop.time() - age
            # an arbitrary earlier stage of the termination may have been reached by previous cycles (one step from any state)
            if pre_signalled or pre_cancelled:
                stopper.set(reason=R.DAEMON_SIGNALLED)
            if pre_cancelled:
                stopper.set(reason=R.DAEMON_CANCELLED)
        d = daemons.Daemon(task=task, logger=logging.getLogger('x'), handler=handler, stopper=stopper)
        delays = await daemons.stop_daemons(settings=settings, daemons={'d': d})
        reason = stopper.reason
        task.cancel()
        return list(delays), reason
    delays, reason = loop.run(main())
    eff_age = age if already else 0
    was_cancelled = already and pre_cancelled       # the task was cancelled by an earlier cycle: it is not cancelled again
    ok = bool(reason & R.RESOURCE_DELETED)
    bo_ = bo if has_bo else None
    to_ = to if has_to else None
    if done:
        ok = ok and delays == [] and not cancelled and not (reason & R.DAEMON_ABANDONED) and (was_cancelled or not (reason & R.DAEMON_CANCELLED))
    else:
        # the statement: flag first; cancellation not before the backoff; abandonment not before backoff+timeout
        if cancelled and not (eff_age >= (bo_ or 0)):
            ok = False
        if (reason & R.DAEMON_ABANDONED) and not (to_ is not None and eff_age >= (bo_ or 0) + to_):
            ok = False
        if bo_ is not None and eff_age < bo_:
            ok = ok and bool(reason & R.DAEMON_SIGNALLED) and not cancelled and delays == [bo_ - eff_age]
            vkopf.witness('signalled')
        elif to_ is not None and eff_age < to_ + (bo_ or 0):
            ok = ok and bool(reason & R.DAEMON_CANCELLED) and len(cancelled) == (0 if was_cancelled else 1) and delays == [to_ + (bo_ or 0) - eff_age]
            vkopf.witness('cancelled')
        elif to_ is not None:
            ok = ok and bool(reason & R.DAEMON_ABANDONED) and delays == []
            vkopf.witness('abandoned')
        else:
            ok = ok and delays == [7] and not cancelled
    return vkopf.verdict(ok)


def h_stop_daemon(reaction: int, r: int, has_bo: bool, bo: int, has_to: bool, to: int) -> bool:
    """
    pre: 0 <= reaction <= 2 and r >= 0 and bo >= 0 and to >= 0
    post: _ == True
    """
    vkopf.begin_path()
    loop = SymLoop()
    settings = configuration.OperatorSettings()
    settings.background.instant_exit_timeout = None
    settings.background.instant_exit_zero_time_cycles = 3
    log = {}

    async def fn(**_):
        pass
    handler = handlers_.DaemonHandler(fn=fn, id='d', param=None, errors=None, timeout=None, retries=None, backoff=None,
                                      selector=None, labels=None, annotations=None, when=None, field=None, value=None,
                                      requires_finalizer=True, initial_delay=None,
                                      cancellation_backoff=bo if has_bo else None, cancellation_timeout=to if has_to else None,
                                      cancellation_polling=None)

    async def main():
        stopper = stoppers.DaemonStopper()

        async def body():
            try:
                await stopper.async_event.wait()
                log['flag_seen'] = loop.time()
                if reaction == 0:
                    if r > 0:
                        await asyncio.sleep(r)
                    return
                await asyncio.Event().wait()
            except asyncio.CancelledError:
                log['cancel_seen'] = loop.time()
                if reaction == 1:
                    try:
                        if r > 0:
                            await asyncio.sleep(r)
                    except asyncio.CancelledError:
                        pass
                    return
                while True:
                    try:
                        await asyncio.Event().wait()
                    except asyncio.CancelledError:
                        pass
        task = asyncio.create_task(body())
        await asyncio.sleep(0)
        d = daemons.Daemon(task=task, logger=logging.getLogger('x'), handler=handler, stopper=stopper)
        t0 = loop.time()
        await daemons.stop_daemon(settings=settings, daemon=d, reason=R.OPERATOR_EXITING)
        t1 = loop.time()
        res = (t0, t1, stopper.reason, task.done())
        if not task.done():
            task.cancel()
        return res
    import warnings
    with warnings.catch_warnings():
        warnings.simplefilter('ignore')
        t0, t1, reason, done = loop.run(main())
    bo_ = bo if has_bo else None
    to_ = to if has_to else None
    ok = bool(reason & R.OPERATOR_EXITING) and log.get('flag_seen') == t0
    if 'cancel_seen' in log:
        vkopf.witness('cancel_seen')
        ok = ok and log['cancel_seen'] >= t0 + (bo_ or 0) and to_ is not None
    if reason & R.DAEMON_ABANDONED:
        vkopf.witness('abandoned')
        ok = ok and not done and t1 >= t0 + (bo_ or 0) + (to_ or 0)
    # stopping never stalls: bounded by backoff + timeout
    ok = ok and t1 <= t0 + (bo_ or 0) + (to_ or 0)
    if done:
        ok = ok and not (reason & R.DAEMON_ABANDONED)
    return vkopf.verdict(ok)


# --------------------------------------------------------------------------------------- H2 histories
STEPS = ['label_off', 'label_on', 'edit', 'mark_deleted', 'gone_unmarked', 'pause_on', 'pause_off', 'noop_event']


def run_history(kind, steps, gaps, timer_kw=None, horizon=50, ties=(), exit_delay=0, stubborn=False, flavour=None):
    """kind: 'daemon' | 'timer'. Returns (log, errors)."""
    obj = base_body(labels={'run': 'yes'})
    w = World(obj, tmode='symbolic')
    loop = w.loop
    log = []
    live = [0, 0]
    paused = aiotoggles.ToggleSet(any)
    w.settings.background.instant_exit_timeout = None
    w.settings.background.instant_exit_zero_time_cycles = 5

    if kind == 'daemon' and flavour == 'self_exit':
        @kopf.daemon(PLURAL, id='d', registry=w.registry, labels={'run': 'yes'}, cancellation_timeout=5)
        async def d(stopped, **kw):
            log.append(('enter', loop.time()))              # ... and returns at once: it exits on its own
            log.append(('exit', loop.time(), str(stopped.reason)))
    elif kind == 'daemon' and flavour == 'crash':
        def boom(**kw):
            log.append(('enter', loop.time()))              # (the attempt to start it is what is counted)
            reason = None
            for mem in w.memories.iter_all_daemon_memories():
                if 'd' in mem.running_daemons:
                    reason = mem.running_daemons['d'].stopper.reason
            log.append(('exit', loop.time(), str(reason)))
            raise RuntimeError('the initial delay cannot be computed')

        @kopf.daemon(PLURAL, id='d', registry=w.registry, labels={'run': 'yes'}, cancellation_timeout=5, initial_delay=boom)
        async def d(stopped, **kw):
            await stopped.wait()
    elif kind == 'daemon' and stubborn:
        @kopf.daemon(PLURAL, id='d', registry=w.registry, labels={'run': 'yes'}, cancellation_backoff=2, cancellation_timeout=5)
        async def d(stopped, **kw):
            # ignores the stop flag; exits only when cancelled
            live[0] += 1
            live[1] = max(live[1], live[0])
            log.append(('enter', loop.time()))
            try:
                await asyncio.Event().wait()
            except asyncio.CancelledError:
                log.append(('cancelled', loop.time()))
                raise
            finally:
                live[0] -= 1
                log.append(('exit', loop.time(), str(stopped.reason)))
    elif kind == 'daemon':
        @kopf.daemon(PLURAL, id='d', registry=w.registry, labels={'run': 'yes'}, cancellation_timeout=5)
        async def d(stopped, **kw):
            live[0] += 1
            live[1] = max(live[1], live[0])
            log.append(('enter', loop.time()))
            try:
                await stopped.wait()
                log.append(('flagged', loop.time()))
                if exit_delay > 0:
                    await asyncio.sleep(exit_delay)         # a daemon that needs some time to wind down
            finally:
                live[0] -= 1
                log.append(('exit', loop.time(), str(stopped.reason)))
    else:
        @kopf.timer(PLURAL, id='t', registry=w.registry, labels={'run': 'yes'}, **(timer_kw or {'interval': 3}))
        async def t(**kw):
            live[0] += 1
            live[1] = max(live[1], live[0])
            log.append(('tick', loop.time()))
            try:
                await asyncio.sleep(2)          # (2 s: with integer instants a step can fall strictly inside a tick)
            finally:
                live[0] -= 1

    async def main():
        toggle = await paused.make_toggle(False, name='peering')
        killer = asyncio.create_task(daemons.daemon_killer(settings=w.settings, memories=w.memories, operator_paused=paused))
        gone = False

        async def deliver(raw_type='MODIFIED', body=None):
            log.append(('event', loop.time(), raw_type))
            await w.process(raw_type, body=body, operator_paused=paused)

        async def settle():
            # re-deliver the object while the framework keeps patching it (finalizer, touches), bounded
            last = None
            for _ in range(6):
                if w.server.obj is None:
                    return
                rv = w.server.obj['metadata']['resourceVersion']
                if rv == last:
                    return
                last = rv
                await deliver()
        await deliver('ADDED')
        await settle()
        for step, gap in zip(steps, gaps):
            if gap > 0:
                await asyncio.sleep(gap)
            if gone:
                break
            name = STEPS[step]
            log.append(('step', loop.time(), name))
            if name == 'label_off':
                w.server.write(lambda o: o['metadata'].setdefault('labels', {}).update(run='no'))
                await settle()
            elif name == 'label_on':
                w.server.write(lambda o: o['metadata'].setdefault('labels', {}).update(run='yes'))
                await settle()
            elif name == 'edit':
                w.server.write(lambda o: o['spec'].update(x=o['spec'].get('x', 0) + 1))
                await settle()
            elif name == 'mark_deleted':
                w.server.write(lambda o: o['metadata'].update(deletionTimestamp='2020-01-01T00:00:00Z'))
                await settle()
                if w.server.obj is None:
                    gone = True
            elif name == 'gone_unmarked':
                last = copy.deepcopy(w.server.obj)
                w.server.obj = None
                await deliver('DELETED', body=last)
                gone = True
            elif name == 'pause_on':
                await toggle.turn_to(True)
            elif name == 'pause_off':
                await toggle.turn_to(False)
                await deliver()
                await settle()
            else:
                await deliver()
        await asyncio.sleep(horizon)
        log.append(('end', loop.time(), live[0], gone))
        if killer.done():
            log.append(('killer_died', loop.time(), repr(killer.exception() if not killer.cancelled() else 'cancelled')))
        killer.cancel()
        await asyncio.gather(killer, return_exceptions=True)
        log.append(('killed', loop.time(), live[0]))
        await asyncio.sleep(10)                 # abandoned instances are still there: they must not start anything new
        log.append(('post', loop.time(), live[0]))
        await cancel_all_others()
    w.run(main(), ties=ties, max_steps=8000)
    return log, live, w


def h_history(s0: int, s1: int, s2: int, g0: int, g1: int, g2: int, r: int) -> bool:
    """
    pre: 0 <= s0 <= 7 and 0 <= s1 <= 7 and 0 <= s2 <= 7
    pre: 0 <= g0 and 0 <= g1 and 0 <= g2 and 0 <= r <= 3
    post: _ == True
    """
    vkopf.begin_path()
    c = vkopf.cell()
    n = c.get('n', 2)
    allowed = c.get('steps')
    s0, s1 = vkopf.pin('s0', s0), vkopf.pin('s1', s1)
    gmax = c.get('gap_max')
    if gmax is not None and (g0 > gmax or g1 > gmax or g2 > gmax):
        return True
    steps = [s0, s1, s2][:n]
    if allowed is not None and any(s not in allowed for s in steps):
        return True
    # while the operator is paused, the daemon killer re-scans every second: every further second of a symbolic gap is
    # another case split, so the gaps that pass in the paused state are bounded
    pmax = c.get('paused_gap_max', 3)
    is_paused = False
    for s, g in zip(steps, [g0, g1, g2][:n]):
        if is_paused and g > pmax:
            return True
        if s == 5:
            is_paused = True
        elif s == 6:
            is_paused = False
    # known finding F12: a daemon that ignores the stop flag is never cancelled when its object disappears without a
    # deletion mark (the memory is forgotten on DELETED and no further cycle escalates the termination)
    f12 = bool(c.get('stubborn')) and 4 in steps
    if f12 and not c.get('only_f12'):
        return True
    if c.get('only_f12') and not f12:
        return True
    try:
        if not c.get('slow_exit'):
            r = 0
        log, live, w = run_history(c['kind'], steps, [g0, g1, g2][:n], timer_kw=c.get('timer_kw'), exit_delay=r, stubborn=c.get('stubborn', False),
                                   flavour=c.get('flavour'))
    except (Deadlock, Diverged, Livelock):
        vkopf.witness('stalled')
        return vkopf.verdict(False)
    ok = live[1] <= 1                       # at most one instance at any time
    if any(e[0] == 'killer_died' for e in log):
        ok = False                          # stopping never crashes the operator (the daemon killer is a root task)
    end = [e for e in log if e[0] == 'end'][0]
    killed = [e for e in log if e[0] == 'killed'][0]
    names = [STEPS[s] for s in steps]
    gone = end[3]
    # after the object disappeared or was marked for deletion, nothing of it keeps running
    if gone and end[2] != 0:
        ok = False
    if 'mark_deleted' in names and end[2] != 0:
        ok = False              # (the horizon of 50 s exceeds every wind-down delay)
    # after the operator exits nothing keeps running; a timer has neither backoff nor timeout, so a tick that is in progress
    # at that instant is abandoned at once (the last stage) -- but it has seen the flag and never ticks again
    if c['kind'] == 'timer':
        k = log.index(killed)
        if any(e[0] == 'tick' for e in log[k + 1:]):
            ok = False
    elif killed[2] != 0:
        ok = False
    if c['kind'] == 'daemon' and c.get('flavour'):
        # an instance that exits on its own (returns, or its guarding task fails) is not restarted during the operator's lifetime
        # (an instance that was already asked to stop when it ended did not end on its own: that one may come back)
        enters = [e for e in log if e[0] == 'enter']
        own = False
        for e in log:
            if e[0] == 'enter' and own:
                ok = False
            if e[0] == 'exit' and e[2] == 'None':
                own = True
        stops0 = [e for e in log if e[0] == 'step' and e[1] == 0 and e[2] in ('label_off', 'mark_deleted', 'gone_unmarked', 'pause_on')]
        if not enters and not stops0:
            ok = False
        if own:
            vkopf.witness('exited_on_its_own')
    elif c['kind'] == 'daemon' and c.get('stubborn'):
        # a daemon that ignores the flag is cancelled after the backoff, whoever asked it to stop first
        enters = [e for e in log if e[0] == 'enter']
        exits = [e for e in log if e[0] == 'exit']
        last_step = names[-1]
        if last_step in ('pause_on', 'label_off', 'mark_deleted') or ('pause_on' in names and 'pause_off' not in names):
            vkopf.witness('stubborn_stopped')
            if end[2] != 0:
                ok = False
    elif c['kind'] == 'daemon':
        enters = [e for e in log if e[0] == 'enter']
        exits = [e for e in log if e[0] == 'exit']
        stops = [e[1] for e in log if e[0] == 'step' and e[2] in ('label_off', 'mark_deleted', 'gone_unmarked', 'pause_on')]
        if (not stops or min(stops) > 0) and (not enters or enters[0][1] != 0):
            ok = False                      # started when the object appeared (unless asked to stop at that very instant)
        # a stop trigger is seen by the running instance in the same cycle (before any virtual time passes),
        # unless the trigger is revoked at the very same instant; scan in log order
        running = False
        for i, e in enumerate(log):
            if e[0] == 'enter':
                if running:
                    ok = False              # re-entry before the previous exit
                running = True
            elif e[0] == 'exit':
                running = False
            elif e[0] == 'step' and e[2] in ('label_off', 'mark_deleted', 'gone_unmarked', 'pause_on') and running:
                seen = False
                for f in log[i + 1:]:
                    if f[0] in ('flagged', 'exit') and f[1] == e[1]:
                        seen = True
                        break
                    if f[0] in ('step', 'end') and f[1] == e[1]:
                        seen = True         # revoked/overtaken at the same instant: not observable
                        break
                    if f[1] > e[1]:
                        break
                if not seen:
                    ok = False
        if len(enters) > 1:
            vkopf.witness('respawned')
    else:
        ticks = [e[1] for e in log if e[0] == 'tick']
        if ticks:
            vkopf.witness('ticked')
    return vkopf.verdict(ok)


def obligations():
    obs = [Ob('h_stop_stage', {}, timeout=900, twins=['signalled', 'cancelled', 'abandoned']),
           Ob('h_stop_daemon', {}, timeout=900, twins=['cancel_seen', 'abandoned'])]
    safe = [0, 1, 2, 3, 4, 5, 6, 7]
    # quick: a sample of step pairs for the daemon (unbounded symbolic gaps), single steps for timers (gaps bounded by 8 s,
    # because every tick of a periodic timer is another case split of an unbounded gap)
    for (a, b) in ((0, 1), (3, 7), (4, 2), (5, 6), (2, 3), (1, 4)):
        obs.append(Ob('h_history', {'kind': 'daemon', 'n': 2, 'pin': {'s0': a, 's1': b}}, tiers=('quick',), timeout=900, path_timeout=200))
    obs.append(Ob('h_history', {'kind': 'daemon', 'n': 2, 'pin': {'s0': 0, 's1': 1}}, tiers=('quick', 'thorough'), timeout=600, path_timeout=200,
                  twins=['respawned'], main=False))
    for (a, b) in ((5, 7), (0, 7), (3, 5)):
        obs.append(Ob('h_history', {'kind': 'daemon', 'n': 2, 'stubborn': True, 'pin': {'s0': a, 's1': b}}, tiers=('quick',), timeout=900,
                      path_timeout=200))
    obs += sample(Ob('h_history', {'kind': 'daemon', 'n': 2, 'stubborn': True}, tiers=('thorough',), timeout=900, path_timeout=200), 32, seed=93,
                  s0=safe, s1=safe)
    obs.append(Ob('h_history', {'kind': 'daemon', 'n': 2, 'stubborn': True}, tiers=('thorough',), timeout=600, path_timeout=200,
                  twins=['stubborn_stopped'], main=False))
    obs.append(Ob('h_history', {'kind': 'daemon', 'n': 1, 'stubborn': True, 'only_f12': True, 'pin': {'s0': 4}}, expect='counterexample',
                  finding='F12', timeout=600, path_timeout=200))
    for (a, b) in ((5, 7), (5, 6), (3, 7)):
        obs.append(Ob('h_history', {'kind': 'daemon', 'n': 2, 'slow_exit': True, 'pin': {'s0': a, 's1': b}}, tiers=('quick',), timeout=900,
                      path_timeout=200))
    obs += sample(Ob('h_history', {'kind': 'daemon', 'n': 2, 'slow_exit': True}, tiers=('thorough',), timeout=900, path_timeout=200), 32, seed=94,
                  s0=safe, s1=safe)
    for fl, pairs in (('self_exit', ((7, 2), (0, 1), (5, 6))), ('crash', ((7, 7), (2, 1)))):
        for (a, b) in pairs:
            obs.append(Ob('h_history', {'kind': 'daemon', 'n': 2, 'flavour': fl, 'pin': {'s0': a, 's1': b}}, tiers=('quick',), timeout=900,
                          path_timeout=200))
        obs += sample(Ob('h_history', {'kind': 'daemon', 'n': 2, 'flavour': fl}, tiers=('thorough',), timeout=900, path_timeout=200), 24, seed=95,
                      s0=safe, s1=safe)
    obs.append(Ob('h_history', {'kind': 'daemon', 'n': 2, 'flavour': 'self_exit', 'pin': {'s0': 7, 's1': 2}}, tiers=('quick', 'thorough'), timeout=600,
                  path_timeout=200, twins=['exited_on_its_own'], main=False))
    # a timer whose slow tick is in progress when the operator pauses and resumes at once: never two instances
    # (the steps of this harness wait for the processing of the previous one -- stop delays included --, so "stops matching and
    # matches again while the tick is still running" is only reachable through the pause toggle, which is not processed per object)
    obs.append(Ob('h_history', {'kind': 'timer', 'n': 2, 'timer_kw': {'interval': 3}, 'gap_max': 4, 'pin': {'s0': 5, 's1': 6}}, tiers=('quick',),
                  timeout=900, path_timeout=200))
    for kw in ({'idle': 4}, {'interval': 3}):
        for a in (3, 4, 5, 7):
            obs.append(Ob('h_history', {'kind': 'timer', 'n': 1, 'timer_kw': kw, 'gap_max': 8, 'pin': {'s0': a}}, tiers=('quick',),
                          timeout=900, path_timeout=200))
    obs += split(Ob('h_history', {'kind': 'daemon', 'n': 2}, tiers=('thorough',), timeout=900, path_timeout=200), s0=safe, s1=safe)
    obs += sample(Ob('h_history', {'kind': 'daemon', 'n': 3}, tiers=('thorough',), timeout=900, path_timeout=200), 12, seed=91, s0=safe, s1=safe)
    for kw in ({'interval': 3}, {'idle': 4}, {'interval': 3, 'idle': 4}):
        obs += sample(Ob('h_history', {'kind': 'timer', 'n': 2, 'timer_kw': kw, 'gap_max': 12}, tiers=('thorough',), timeout=900, path_timeout=200),
                      5, seed=92 + len(kw) + kw.get('interval', 0), s0=safe, s1=safe)
    return obs
