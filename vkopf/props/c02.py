"""C02 — recorded handler progress governs invocation (no re-run of finished handlers).

L1b (inductive step = every crash/restart point): one REAL process_resource_event from an ARBITRARY persisted state
    (per handler: absent / in progress with symbolic retries and a delay in the past or future / success / failure;
    diff-base absent / equal / stale; fresh memory) with a symbolic outcome per invoked handler.
L2 (closed loop): real pipeline fed back through the FakeServer; symbolic script of handler outcomes, graceful
    restarts and kills (before / after the server applied the in-flight PATCH); cells: lifecycle x storage x handler set.
"""
import asyncio
import copy
import datetime
import json
import logging

import kopf
import vkopf
from vkopf.driver_api import Ob, split, sample
from vkopf.loop import ClosedLoop, read_record, read_lhc, progress_keys, Killed
from vkopf.symloop import Deadlock, Diverged, Livelock, cancel_all_others
from vkopf.world import base_body, FIN, LHC, PLURAL, rfc7386

from kopf._cogs.configs import progress
from kopf._core.actions import execution, progression
from kopf._core.reactor import processing, subhandling

logging.disable(logging.CRITICAL)
ENCODED = [progression.State.from_storage, progression.State.with_purpose, progression.State.with_handlers,
           progression.State.with_outcomes, progression.State.store, progression.State.purge, progression.State.done,
           progression.State.delays, progression.HandlerState.from_storage, progression.HandlerState.with_outcome,
           execution.execute_handlers_once, execution.execute_handler_once, processing.process_changing_cause,
           processing.process_resource_event, subhandling.execute]
META = {
    'bounds': 'h_resume_subs: a resume handler with two sub-handlers after a restart, first outcome of each sub-handler symbolic (ok/temporary/permanent), an essential edit after 0..2 more events. L1b: 2 create handlers (+ optional 2 sub-handlers cell); per handler a symbolic stored record kind in {absent, '
              'in-progress(retries 0..2, delayed none/past/future), success, failure}; diff-base in {absent, equal, stale}; symbolic '
              'outcome per invocation in {ok, Temporary, Permanent, arbitrary}. L2: <=3 script steps (thorough <=4) from {outcome kinds, '
              'graceful restart, kill before apply, kill after apply, foreign status edit, essential edit}; T-concrete time (delay 5 s).',
    'outside': 'randomized/shuffled lifecycles; more than 2 top-level handlers; echo delays beyond the consistency timeout (C07); '
               'operator pauses; sync handlers',
    'stubs': ['api.patch -> FakeServer (RFC 7386/6902 reference)', 'kill = BaseException raised out of the API request'],
    'assumptions': ['a restarted operator re-lists the object (C19)'],
}

HIDS = ['ha', 'hb']
NOW = None


def _iso(dt):
    return dt.isoformat(timespec='microseconds')


def stored_record(kind, retries, delayed_kind, purpose):
    """kind: 0 absent, 1 in progress, 2 success, 3 failure."""
    if kind == 0:
        return None
    from vkopf import vclock
    now = vclock.BASE          # the virtual wall clock at loop time 0
    rec = {'started': _iso(now - datetime.timedelta(seconds=100)), 'purpose': purpose, 'retries': retries}
    if kind == 1:
        if delayed_kind == 1:
            rec['delayed'] = _iso(now - datetime.timedelta(seconds=50))
        elif delayed_kind == 2:
            rec['delayed'] = _iso(now + datetime.timedelta(seconds=500))
    elif kind == 2:
        rec.update(success=True, stopped=_iso(now - datetime.timedelta(seconds=10)), retries=max(retries, 1))
    else:
        rec.update(failure=True, stopped=_iso(now - datetime.timedelta(seconds=10)), retries=max(retries, 1), message='boom')
    return rec


def h_step(ka: int, kb: int, ra: int, rb: int, da: int, db: int, oa: int, ob: int, base: int, listed: bool) -> bool:
    """
    pre: 0 <= ka <= 3 and 0 <= kb <= 3 and 0 <= ra <= 2 and 0 <= rb <= 2
    pre: 0 <= da <= 2 and 0 <= db <= 2 and 0 <= oa <= 3 and 0 <= ob <= 3 and 0 <= base <= 2
    post: _ == True
    """
    vkopf.begin_path()
    c = vkopf.cell()
    ka, kb, base, listed = vkopf.pin('ka', ka), vkopf.pin('kb', kb), vkopf.pin('base', base), vkopf.pin('listed', listed)
    da, db, ob = vkopf.pin('da', da), vkopf.pin('db', db), vkopf.pin('ob', ob)
    ra, rb = vkopf.choose(ra, [0, 1, 2]), vkopf.choose(rb, [0, 1, 2])
    storage, lifecycle = c.get('storage', 'smart'), c.get('lifecycle', 'all_at_once')
    obj = base_body()
    w = ClosedLoop(obj, storage=storage, lifecycle=lifecycle)
    for hid in HIDS:
        w.add_handler(kopf.on.create, hid)
    w.outcomes = {'ha': [oa], 'hb': [ob]}
    # build the persisted state through the REAL storage (format is the storage's own), content is arbitrary
    from kopf._cogs.structs import bodies, patches
    p = patches.Patch()
    st = w.settings.persistence.progress_storage
    recs = {'ha': stored_record(ka, ra, da, 'create'), 'hb': stored_record(kb, rb, db, 'create')}
    for hid, rec in recs.items():
        if rec is not None:
            st.store(key=hid, record=progress.ProgressRecord(**rec), body=bodies.Body(obj), patch=p)
    if base == 1:
        w.settings.persistence.diffbase_storage.store(body=bodies.Body(obj), patch=p, essence={'spec': {'x': 1}})
    elif base == 2:
        w.settings.persistence.diffbase_storage.store(body=bodies.Body(obj), patch=p, essence={'spec': {'x': 0}})
    if storage == 'smart':
        # the smart storage does not write to status; persist the same records there? no: annotations only.
        pass
    w.server.obj = rfc7386(obj, dict(p))
    before = copy.deepcopy(w.server.obj)

    async def main():
        try:
            await w.process(None if listed else 'MODIFIED')
        finally:
            await cancel_all_others()
    try:
        w.run(main())
    except (Deadlock, Diverged, Livelock):
        return vkopf.verdict(False)
    after = w.server.obj
    ok = True
    inv = {i['id']: i for i in w.invocations}
    if len(w.invocations) != len(inv):
        ok = False                      # no handler twice in one cycle
    kinds = {'ha': (ka, ra, da), 'hb': (kb, rb, db)}
    # the reason of this event, from the object's state alone
    if base == 0:
        reason = 'create'
    elif base == 1:
        reason = 'resume' if listed else 'noop'
    else:
        reason = 'update'
    selected = HIDS if reason == 'create' else []
    for hid in HIDS:
        k, r, d = kinds[hid]
        if hid in inv:
            # finished handlers are never invoked again; sleeping ones wait; the retry number equals the record
            if k in (2, 3) or (k == 1 and d == 2) or hid not in selected:
                ok = False
            if inv[hid]['retry'] != (r if k == 1 else 0):
                ok = False
            vkopf.witness('invoked')
    if lifecycle == 'one_by_one' and len(inv) > 1:
        ok = False
    # what is finished after this cycle (on the server)?
    def finished_after(hid):
        k, r, d = kinds[hid]
        if k in (2, 3):
            return True
        if hid in inv:
            o = inv[hid]['outcome']
            return o in (0, 2)
        return False
    lhc_before, lhc_after = read_lhc(before, storage), read_lhc(after, storage)
    if reason == 'create':
        all_done = all(finished_after(h) for h in HIDS)
        closed = lhc_after == {'spec': {'x': 1}} and not progress_keys(after, storage)
        if all_done != closed:
            ok = False                  # closed exactly when every selected handler has finished, not before
        if closed:
            vkopf.witness('closed')
        else:
            if lhc_after != lhc_before:
                ok = False
            # records of unfinished/finished handlers stay readable for the next cycle
            for hid in HIDS:
                rec = read_record(after, hid, storage)
                if finished_after(hid) and not (rec and (rec.get('success') or rec.get('failure'))):
                    ok = False
                if hid in inv and not finished_after(hid):
                    if not rec or rec.get('retries') != inv[hid]['retry'] + 1:
                        ok = False
    else:
        if inv:
            ok = False
    return vkopf.verdict(ok)


# ----------------------------------------------------------------------------------------- L2 closed loop
# script steps: 0 nothing special; 1 graceful restart; 2 kill before apply; 3 kill after apply; 4 foreign status edit;
STEP_NAMES = ['none', 'restart', 'kill_before', 'kill_after', 'foreign_status']


def run_loop(cell, outcomes, steps, kill_req=0):
    storage, lifecycle = cell.get('storage', 'smart'), cell.get('lifecycle', 'all_at_once')
    handlers = cell.get('handlers', 'two_create')
    w = ClosedLoop(base_body(), storage=storage, lifecycle=lifecycle)
    if handlers == 'two_create':
        w.add_handler(kopf.on.create, 'ha')
        w.add_handler(kopf.on.create, 'hb')
        ids = ['ha', 'hb']
    elif handlers == 'one_create':
        w.add_handler(kopf.on.create, 'ha')
        ids = ['ha']
    elif handlers == 'subhandlers':
        w.add_parent_handler(kopf.on.create, 'ha', ['a', 'b'])
        ids = ['ha', 'ha/a']          # outcome scripts: the parent's and the first sub-handler's
    else:
        raise ValueError(handlers)
    w.outcomes = {hid: list(outs) for hid, outs in zip(ids, outcomes)}
    closed_log = []

    async def main():
        try:
            for s in steps:
                if w.server.obj is None:
                    break
                name = STEP_NAMES[s]
                if name == 'restart':
                    w.graceful_restart()
                elif name == 'kill_before':
                    w.arm_kill(kill_req, 'before')
                elif name == 'kill_after':
                    w.arm_kill(kill_req, 'after')
                elif name == 'foreign_status':
                    w.server.write(lambda o: o.setdefault('status', {}).update(seen='x'))
                # one event (or listing) is processed per step; the echo of our own patch is the next event
                if w.needs_listing:
                    w.needs_listing = False
                    await w.deliver_listing()
                else:
                    await w.deliver()
            # quiescence: no more external steps; feed echoes until the object stops moving
            await w.settle(max_events=14)
        finally:
            await cancel_all_others()
    w.run(main(), max_steps=20000)
    return w, ids


def h_loop(o0: int, o1: int, o2: int, p0: int, p1: int, s0: int, s1: int, s2: int, kill_req: int) -> bool:
    """
    pre: 0 <= o0 <= 4 and 0 <= o1 <= 4 and 0 <= o2 <= 4 and 0 <= p0 <= 3 and 0 <= p1 <= 3
    pre: 0 <= s0 <= 4 and 0 <= s1 <= 4 and 0 <= s2 <= 4 and 0 <= kill_req <= 1
    post: _ == True
    """
    vkopf.begin_path()
    c = vkopf.cell()
    s0, s1 = vkopf.pin('s0', s0), vkopf.pin('s1', s1)
    o0, o1 = vkopf.pin('o0', o0), vkopf.pin('o1', o1)
    n = c.get('n', 3)
    steps = [s0, s1, s2][:n]
    if c.get('handlers') != 'subhandlers' and 4 in (o0, o1, o2):
        return True
    try:
        w, ids = run_loop(c, [[o0, o1, o2], [p0, p1]], steps, kill_req)
    except (Deadlock, Diverged, Livelock):
        return vkopf.verdict(False)
    storage = c.get('storage', 'smart')
    ok = True
    kills = [s for s in steps if s in (2, 3)]
    for i in w.invocations:
        rec = i['server_record']
        # after a success / permanent failure of h is recorded on the object, h is not invoked again
        if rec is not None and (rec.get('success') or rec.get('failure')):
            ok = False
        # a handler still due is invoked with a retry number equal to its recorded attempts
        if i['retry'] != ((rec or {}).get('retries') or 0):
            ok = False
    # the cycle is closed exactly when every selected handler has finished
    final = w.server.obj
    if final is not None:
        lhc = read_lhc(final, storage)
        finished = {}
        top = [hid for hid in ids if '/' not in hid]
        for hid in top:
            finals = [i for i in w.invocations if i['id'] == hid and i['outcome'] in (0, 2, 4)]
            if c.get('handlers') == 'subhandlers':
                # the parent is finished when it gave up (4/2) or when it and all its sub-handlers have final outcomes
                gave_up = any(i['id'] == hid and i['outcome'] in (2, 4) for i in w.invocations)
                subs_done = all(any(i['id'] == f'{hid}/{x}' and i['outcome'] in (0, 2) for i in w.invocations) for x in ('a', 'b'))
                ok_parent = any(i['id'] == hid and i['outcome'] == 0 for i in w.invocations)
                finished[hid] = gave_up or (ok_parent and subs_done)
            else:
                finished[hid] = bool(finals)
        # walk the server log: the last-handled state may only appear in a write after which no progress remains,
        # and only once all handlers have a final outcome behind them
        for rv, snap in w.server.log:
            if read_lhc(snap, storage) is not None:
                if progress_keys(snap, storage):
                    ok = False
                done_by_then = all(finished.values())
                if not done_by_then:
                    ok = False
        if all(finished.values()):
            vkopf.witness('all_finished')
            if lhc != {'spec': {'x': 1}} or progress_keys(final, storage):
                ok = False          # ... and it IS closed then (within the bounded settle)
    # absent kills (lost responses), each handler succeeds at most once per cycle
    if not kills:
        once = ['ha/a', 'ha/b'] if c.get('handlers') == 'subhandlers' else ids    # a parent's body is re-entered
        for hid in once:                                                            # until its children are done
            if len([i for i in w.invocations if i['id'] == hid and i['outcome'] == 0]) > 1:
                ok = False
    else:
        vkopf.witness('killed')
    return vkopf.verdict(ok)


def h_resume_subs(oa: int, ob: int, edit_after: int) -> bool:
    """
    pre: 0 <= oa <= 2 and 0 <= ob <= 2 and 0 <= edit_after <= 2
    post: _ == True
    """
    # Recorded progress also governs SUB-handlers of a resume handler across a change of the cause: the operator restarts over a
    # handled object, the resume handler declares sub-handlers a (outcome oa first: ok/temporary/permanent) and b (ob), and an
    # essential edit arrives after `edit_after` more events -- before or after the resumption has finished.
    vkopf.begin_path()
    c = vkopf.cell()
    oa, ob, edit_after = vkopf.pin('oa', oa), vkopf.pin('ob', ob), vkopf.pin('edit_after', edit_after)
    w = ClosedLoop(base_body(), storage=c.get('storage', 'smart'), lifecycle=c.get('lifecycle', 'all_at_once'))
    w.add_parent_handler(kopf.on.resume, 'ha', ['a', 'b'])
    w.add_handler(kopf.on.update, 'hu')
    w.outcomes = {'ha/a': [oa], 'ha/b': [ob]}

    async def main():
        try:
            await w.deliver()                  # a previous life: seen and handled (no creation handlers: the cycle closes at once)
            await w.settle()
            w.graceful_restart()
            w.invocations.clear()
            for _ in range(edit_after + 1):    # the listing, then the echoes of the operator's own writes
                if w.needs_listing:
                    w.needs_listing = False
                    await w.deliver_listing()
                elif w.server.obj['metadata']['resourceVersion'] != w.delivered_rv:
                    await w.deliver()
            w.server.write(lambda o: o['spec'].update(x=2))
            await w.deliver()
            return await w.settle(max_events=20)
        finally:
            await cancel_all_others()
    try:
        conv = w.run(main(), max_steps=30000)
    except (Deadlock, Diverged, Livelock):
        return vkopf.verdict(False)
    ok = bool(conv)
    for hid in ('ha/a', 'ha/b'):
        inv = [i for i in w.invocations if i['id'] == hid]
        # a final outcome (success, permanent failure) is final: never invoked again, whatever cause took over
        for k, i in enumerate(inv):
            if i['outcome'] in (0, 2) and k != len(inv) - 1:
                ok = False
        # attempts are numbered consecutively from the recorded count: 0, 1, 2, ...
        if [i['retry'] for i in inv] != list(range(len(inv))):
            ok = False
        if len(inv) > 1:
            vkopf.witness('sub_retried_across_causes')
    if any(i['id'] == 'hu' for i in w.invocations) and any(i['id'].startswith('ha/') and i['reason'] == 'update' for i in w.invocations):
        vkopf.witness('resumption_superseded')
    # the edit is handled exactly once
    if len([i for i in w.invocations if i['id'] == 'hu' and i['outcome'] == 0]) != 1:
        ok = False
    return vkopf.verdict(ok)


def obligations():
    obs = []
    K = [0, 1, 2, 3]
    # thorough: a fixed-seed sample of the fully pinned stored-state cells per storage/lifecycle pair (the full product of
    # 3456 cells x 3 pairs at ~1 CPU-minute each is out of reach; the evidence lists the cells that were run)
    for i, (storage, lifecycle) in enumerate((('smart', 'all_at_once'), ('status', 'one_by_one'), ('annotations', 'asap'))):
        obs += sample(Ob('h_step', {'storage': storage, 'lifecycle': lifecycle}, tiers=('thorough',), timeout=900, path_timeout=200), 40, seed=20 + i,
                      ka=K, kb=K, base=[0, 1, 2], listed=[False, True], da=[0, 1, 2], db=[0, 1, 2], ob=[0, 1, 2, 3])
    # quick: a sample of the stored-state cells (the rest is in the thorough tier)
    # (ka, kb, base, listed, da, db, ob): retries and the outcome of the first handler stay symbolic
    for (ka, kb, base, listed, da, db, ob) in ((0, 1, 0, False, 0, 1, 0), (1, 1, 0, False, 1, 2, 1), (1, 2, 0, True, 0, 0, 0),
                                               (2, 3, 0, False, 0, 0, 0), (2, 2, 2, False, 0, 0, 0), (1, 0, 1, True, 2, 0, 3),
                                               (0, 0, 0, False, 0, 0, 2)):
        obs.append(Ob('h_step', {'storage': 'smart', 'lifecycle': 'all_at_once',
                                 'pin': {'ka': ka, 'kb': kb, 'base': base, 'listed': listed, 'da': da, 'db': db, 'ob': ob}},
                      tiers=('quick',), timeout=600, path_timeout=200))
    for (ka, kb, base, listed, da, db, ob) in ((1, 0, 0, False, 1, 0, 0), (0, 2, 0, False, 0, 0, 0)):
        obs.append(Ob('h_step', {'storage': 'status', 'lifecycle': 'one_by_one',
                                 'pin': {'ka': ka, 'kb': kb, 'base': base, 'listed': listed, 'da': da, 'db': db, 'ob': ob}},
                      tiers=('quick',), timeout=600, path_timeout=200))
    obs.append(Ob('h_step', {'storage': 'smart', 'lifecycle': 'all_at_once'}, tiers=('quick', 'thorough'), timeout=600, twins=['invoked', 'closed'], main=False))
    # closed loop
    for (s0, s1, o0) in ((0, 0, 1), (3, 0, 0), (1, 2, 3), (2, 1, 1), (4, 3, 0)):
        obs.append(Ob('h_loop', {'storage': 'smart', 'lifecycle': 'all_at_once', 'handlers': 'one_create', 'n': 2,
                                 'pin': {'s0': s0, 's1': s1, 'o0': o0}}, tiers=('quick',), timeout=600, path_timeout=300))
    obs.append(Ob('h_loop', {'storage': 'smart', 'lifecycle': 'all_at_once', 'handlers': 'one_create', 'n': 2}, tiers=('quick', 'thorough'),
                  timeout=600, twins=['all_finished', 'killed'], main=False))
    for (o0, o1) in ((0, 4), (0, 0), (4, 0)):
        obs.append(Ob('h_loop', {'storage': 'smart', 'lifecycle': 'all_at_once', 'handlers': 'subhandlers', 'n': 1, 'pin': {'o0': o0, 'o1': o1, 's0': 0}},
                      tiers=('quick',), timeout=600, path_timeout=300))
    for (oa, ea) in ((2, 0), (1, 0), (1, 1)):
        obs.append(Ob('h_resume_subs', {'pin': {'oa': oa, 'edit_after': ea}}, tiers=('quick', 'thorough'), timeout=600, path_timeout=300,
                      twins=['sub_retried_across_causes'] if (oa, ea) == (1, 0) else []))
    obs += split(Ob('h_resume_subs', {'storage': 'status', 'lifecycle': 'one_by_one'}, tiers=('thorough',), timeout=900, path_timeout=300),
                 oa=[0, 1, 2], edit_after=[0, 1, 2])
    S, O = [0, 1, 2, 3, 4], [0, 1, 2, 3]
    obs += sample(Ob('h_loop', {'storage': 'smart', 'lifecycle': 'all_at_once', 'handlers': 'one_create', 'n': 2},
                     tiers=('thorough',), timeout=900, path_timeout=300), 48, seed=29, s0=S, s1=S, o0=O)
    for i, (storage, lifecycle) in enumerate((('status', 'one_by_one'), ('annotations', 'asap'), ('smart', 'one_by_one'))):
        obs += sample(Ob('h_loop', {'storage': storage, 'lifecycle': lifecycle, 'handlers': 'two_create', 'n': 2},
                         tiers=('thorough',), timeout=900, path_timeout=300), 8, seed=30 + i, s0=S, s1=S, o0=O, o1=O)
    obs += sample(Ob('h_loop', {'storage': 'smart', 'lifecycle': 'all_at_once', 'handlers': 'subhandlers', 'n': 1},
                     tiers=('thorough',), timeout=900, path_timeout=300), 20, seed=33, o0=[0, 1, 2, 3, 4], o1=[0, 2, 4], s0=[0, 2, 3])
    obs += sample(Ob('h_loop', {'storage': 'status', 'lifecycle': 'one_by_one', 'handlers': 'subhandlers', 'n': 2},
                     tiers=('thorough',), timeout=900, path_timeout=300), 10, seed=34, s0=S, s1=S, o0=[0, 1, 2, 3, 4], o1=[0, 2, 4])
    return obs
