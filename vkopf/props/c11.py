"""C11 — handler error policy: retry delays, permanence, retries/timeout limits.

H1: real execution.execute_handler_once with a stub HandlerState (symbolic retries/runtime) and a handler raising
    a symbolic exception kind; the Outcome must equal an independent decision table written from docs/errors.rst
    and the property statement.
H2: sequences across cycles and restarts: the real change-handler closed loop (process_resource_event on
    FakeServer, StatusProgressStorage/annotations) with T-symbolic datetime shim -- see c02/c11 sequence harness.
"""
import asyncio
import logging

import kopf
import vkopf
from vkopf.driver_api import Ob, split
from vkopf.symloop import SymLoop
from vkopf.world import make_resource, PLURAL, base_body

from kopf._cogs.configs import configuration
from kopf._cogs.structs import bodies, ephemera, patches
from kopf._core.actions import execution
from kopf._core.intents import causes, registries

logging.disable(logging.CRITICAL)
ENCODED = [execution.execute_handler_once, execution.invoke_handler]
META = {
    'bounds': 'H1: one invocation; exception kind in {none, Temporary(delay symbolic or None), Permanent, arbitrary}; errors mode in '
              '{default, TEMPORARY, PERMANENT, IGNORED}; retries limit None or symbolic>=0; timeout None or symbolic>0; backoff None or '
              'symbolic>=0; recorded retries symbolic>=0; runtime symbolic>=0 (reals).',
    'outside': 'sync handlers in threads; asyncio.TimeoutError cancellation of a running coroutine at the timeout (not implemented by kopf for change handlers)',
    'stubs': ['HandlerState protocol stub (retries/runtime/started)'],
    'assumptions': [],
}


class FakeRuntime:
    """Stands in for datetime.timedelta (whole seconds): same attribute protocol, symbolic-friendly arithmetic."""
    def __init__(self, s): self.s = s
    def total_seconds(self): return self.s
    @property
    def days(self): return self.s // 86400
    @property
    def seconds(self): return self.s % 86400
    @property
    def microseconds(self): return 0
    def __str__(self): return 'rt'


class FakeState:
    def __init__(self, retries, runtime):
        self.retries = retries
        self.runtime = FakeRuntime(runtime)
        self.started = None


def table(kind, delay, mode, retries_limit, timeout, backoff, rec_retries, runtime):
    """Independent decision table. Returns (invoked, final, failed, delay)."""
    # strict limits first: no attempt starts once the limits are reached
    if timeout is not None and runtime >= timeout:
        return (False, True, True, None)
    if retries_limit is not None and rec_retries >= retries_limit:
        return (False, True, True, None)
    if kind == 0:
        return (True, True, False, None)
    if kind == 2:                               # PermanentError: ends it without retry
        return (True, True, True, None)
    if kind == 1:                               # TemporaryError: retried, never sooner than its delay ...
        d = delay
        # ... unless the next attempt could not start within the limits: recorded as failed for good
        if timeout is not None and runtime + (d or 0) >= timeout:
            return (True, True, True, None)
        if retries_limit is not None and rec_retries + 1 >= retries_limit:
            return (True, True, True, None)
        return (True, False, False, d)
    # arbitrary error
    if mode == 3:                               # IGNORED: counts as done
        return (True, True, False, None)
    if mode == 2:                               # PERMANENT
        return (True, True, True, None)
    if timeout is not None and runtime + backoff >= timeout:
        return (True, True, True, None)
    if retries_limit is not None and rec_retries + 1 >= retries_limit:
        return (True, True, True, None)
    return (True, False, False, backoff)


def h_table(kind: int, has_delay: bool, delay: int, mode: int, has_rl: bool, rl: int, has_to: bool, to: int,
            has_bo: bool, bo: int, rec: int, runtime: int, default_backoff: int) -> bool:
    """
    pre: 0 <= kind <= 3 and 0 <= mode <= 3
    pre: delay >= 0 and rl >= 0 and to >= 1 and bo >= 0 and rec >= 0 and runtime >= 0 and default_backoff >= 0
    post: _ == True
    """
    vkopf.begin_path()
    kind, mode = vkopf.pin('kind', kind), vkopf.pin('mode', mode)
    registry = registries.OperatorRegistry()
    invoked = []
    modes = [None, kopf.ErrorsMode.TEMPORARY, kopf.ErrorsMode.PERMANENT, kopf.ErrorsMode.IGNORED]
    the_delay = delay if has_delay else None

    @kopf.on.create(PLURAL, id='h', registry=registry, errors=modes[mode], retries=rl if has_rl else None,
                    timeout=to if has_to else None, backoff=bo if has_bo else None)
    async def h(retry, **kw):
        invoked.append(retry)
        if kind == 1:
            raise kopf.TemporaryError('t', delay=the_delay)
        if kind == 2:
            raise kopf.PermanentError('p')
        if kind == 3:
            raise ValueError('x')

    handler = registry._changing.get_all_handlers()[0]
    settings = configuration.OperatorSettings()
    settings.execution.default_backoff = default_backoff
    raw = base_body()
    cause = causes.ChangingCause(
        resource=make_resource(), indices={}, logger=logging.getLogger('x'), patch=patches.Patch(), memo=ephemera.Memo(),
        body=bodies.Body(raw), initial=False, reason=causes.Reason.CREATE, diff=(), old=None, new=None)
    loop = SymLoop()

    async def main():
        return await execution.execute_handler_once(settings=settings, handler=handler, cause=cause,
                                                    state=FakeState(rec, runtime))
    out = loop.run(main())
    eff_backoff = bo if has_bo else default_backoff
    eff_mode = 1 if mode == 0 else mode
    w_inv, w_final, w_failed, w_delay = table(kind, the_delay, eff_mode, rl if has_rl else None, to if has_to else None,
                                              eff_backoff, rec, runtime)
    ok = (len(invoked) == 1) == w_inv
    if invoked:
        ok = ok and invoked[0] == rec          # retry kwarg == recorded attempts
    ok = ok and out.final == w_final and (out.exception is not None) == (w_failed or (not w_final))
    if not w_final:
        ok = ok and out.delay == w_delay
        vkopf.witness('retry_scheduled')
    if w_final and w_failed:
        vkopf.witness('failed_for_good')
    return vkopf.verdict(ok)


def obligations():
    return split(Ob('h_table', {}, timeout=900, twins=['retry_scheduled', 'failed_for_good']), kind=[0, 1, 2, 3], mode=[0, 1, 2, 3])
