"""C11 — handler error policy: retry delays, permanence, retries/timeout limits.

H1: real execution.execute_handler_once with a stub HandlerState (symbolic retries/runtime) and a handler raising
    a symbolic exception kind; the Outcome must equal an independent decision table written from docs/errors.rst
    and the property statement.
H2: sequences across cycles and restarts: the real change-handler closed loop (process_resource_event on
    FakeServer, StatusProgressStorage/annotations) with T-symbolic datetime shim -- see c02/c11 sequence harness.
"""
import asyncio
import logging

import kopf
import vkopf
from vkopf.driver_api import Ob, split, sample
from vkopf.symloop import SymLoop, Deadlock, Diverged, Livelock
from vkopf.world import make_resource, PLURAL, base_body

from kopf._cogs.configs import configuration
from kopf._cogs.structs import bodies, ephemera, patches
from kopf._core.actions import execution
from kopf._core.intents import causes, registries

logging.disable(logging.CRITICAL)
from kopf._core.engines import activities as _activities
ENCODED = [execution.execute_handler_once, execution.invoke_handler, _activities.run_activity, execution.execute_handlers_once]
META = {
    'bounds': 'H1: one invocation; exception kind in {none, Temporary(delay symbolic or None), Permanent, arbitrary}; errors mode in '
              '{default, TEMPORARY, PERMANENT, IGNORED}; retries limit None or symbolic>=0; timeout None or symbolic>0; backoff None or '
              'symbolic>=0; recorded retries symbolic>=0; runtime symbolic>=0 (reals). '
              'H3: two start-up handlers with outcome scripts of <=3 attempts each (ok/temporary/arbitrary/permanent), symbolic delays, '
              'retries limits <=4, symbolic backoff -- through the real run_activity().',
    'outside': 'sync handlers in threads; asyncio.TimeoutError cancellation of a running coroutine at the timeout (not implemented by kopf for change handlers)',
    'stubs': ['HandlerState protocol stub (retries/runtime/started)'],
    'assumptions': [],
}


class FakeRuntime:
    """Stands in for datetime.timedelta (whole seconds): same attribute protocol, symbolic-friendly arithmetic."""
    def __init__(self, s): self.s = s
    def total_seconds(self): return self.s
    @property
    def days(self): return self.s // 86400
    @property
    def seconds(self): return self.s % 86400
    @property
    def microseconds(self): return 0
    def __str__(self): return 'rt'


class FakeState:
    def __init__(self, retries, runtime):
        self.retries = retries
        self.runtime = FakeRuntime(runtime)
        self.started = None


def table(kind, delay, mode, retries_limit, timeout, backoff, rec_retries, runtime):
    """Independent decision table. Returns (invoked, final, failed, delay)."""
    # strict limits first: no attempt starts once the limits are reached
    if timeout is not None and runtime >= timeout:
        return (False, True, True, None)
    if retries_limit is not None and rec_retries >= retries_limit:
        return (False, True, True, None)
    if kind == 0:
        return (True, True, False, None)
    if kind == 2:                               # PermanentError: ends it without retry
        return (True, True, True, None)
    if kind == 1:                               # TemporaryError: retried, never sooner than its delay ...
        d = delay
        # ... unless the next attempt could not start within the limits: recorded as failed for good
        if timeout is not None and runtime + (d or 0) >= timeout:
            return (True, True, True, None)
        if retries_limit is not None and rec_retries + 1 >= retries_limit:
            return (True, True, True, None)
        return (True, False, False, d)
    # arbitrary error
    if mode == 3:                               # IGNORED: counts as done
        return (True, True, False, None)
    if mode == 2:                               # PERMANENT
        return (True, True, True, None)
    if timeout is not None and runtime + backoff >= timeout:
        return (True, True, True, None)
    if retries_limit is not None and rec_retries + 1 >= retries_limit:
        return (True, True, True, None)
    return (True, False, False, backoff)


def h_table(kind: int, has_delay: bool, delay: int, mode: int, has_rl: bool, rl: int, has_to: bool, to: int,
            has_bo: bool, bo: int, rec: int, runtime: int, default_backoff: int) -> bool:
    """
    pre: 0 <= kind <= 3 and 0 <= mode <= 3
    pre: delay >= 0 and rl >= 0 and to >= 1 and bo >= 0 and rec >= 0 and runtime >= 0 and default_backoff >= 0
    post: _ == True
    """
    vkopf.begin_path()
    kind, mode = vkopf.pin('kind', kind), vkopf.pin('mode', mode)
    registry = registries.OperatorRegistry()
    invoked = []
    modes = [None, kopf.ErrorsMode.TEMPORARY, kopf.ErrorsMode.PERMANENT, kopf.ErrorsMode.IGNORED]
    the_delay = delay if has_delay else None

    @kopf.on.create(PLURAL, id='h', registry=registry, errors=modes[mode], retries=rl if has_rl else None,
                    timeout=to if has_to else None, backoff=bo if has_bo else None)
    async def h(retry, **kw):
        invoked.append(retry)
        if kind == 1:
            raise kopf.TemporaryError('t', delay=the_delay)
        if kind == 2:
            raise kopf.PermanentError('p')
        if kind == 3:
            raise ValueError('x')

    handler = registry._changing.get_all_handlers()[0]
    settings = configuration.OperatorSettings()
    settings.execution.default_backoff = default_backoff
    raw = base_body()
    cause = causes.ChangingCause(
        resource=make_resource(), indices={}, logger=logging.getLogger('x'), patch=patches.Patch(), memo=ephemera.Memo(),
        body=bodies.Body(raw), initial=False, reason=causes.Reason.CREATE, diff=(), old=None, new=None)
    loop = SymLoop()

    async def main():
        return await execution.execute_handler_once(settings=settings, handler=handler, cause=cause,
                                                    state=FakeState(rec, runtime))
    out = loop.run(main())
    eff_backoff = bo if has_bo else default_backoff
    eff_mode = 1 if mode == 0 else mode
    w_inv, w_final, w_failed, w_delay = table(kind, the_delay, eff_mode, rl if has_rl else None, to if has_to else None,
                                              eff_backoff, rec, runtime)
    ok = (len(invoked) == 1) == w_inv
    if invoked:
        ok = ok and invoked[0] == rec          # retry kwarg == recorded attempts
    ok = ok and out.final == w_final and (out.exception is not None) == (w_failed or (not w_final))
    if not w_final:
        ok = ok and out.delay == w_delay
        vkopf.witness('retry_scheduled')
    if w_final and w_failed:
        vkopf.witness('failed_for_good')
    return vkopf.verdict(ok)


# ------------------------------------------------------------------------------ H3 activities with several handlers
def run_activity_script(scripts, delays, limits, backoff):
    """The real activities.run_activity() (start-up) with two handlers following outcome scripts
    (0 ok, 1 TemporaryError(delay), 2 arbitrary error, 3 PermanentError). Returns (calls, error)."""
    from kopf._core.actions import lifecycles, progression
    from kopf._core.engines import activities
    from vkopf import shimdt
    loop = SymLoop()
    registry = registries.OperatorRegistry()
    calls = [[], []]

    def make(i):
        async def fn(retry, **kw):
            calls[i].append((loop.time(), retry))
            n = len(calls[i])
            k = scripts[i][n - 1] if n <= len(scripts[i]) else 0
            if k == 1:
                raise kopf.TemporaryError('t', delay=delays[i])
            if k == 2:
                raise ValueError('x')
            if k == 3:
                raise kopf.PermanentError('p')
        return fn
    for i in (0, 1):
        kopf.on.startup(id='h%d' % i, registry=registry, retries=limits[i], backoff=backoff)(make(i))
    settings = configuration.OperatorSettings()

    async def main():
        try:
            await activities.run_activity(lifecycle=lifecycles.all_at_once, registry=registry, settings=settings,
                                          activity=causes.Activity.STARTUP, indices={}, memo=ephemera.Memo())
            return None
        except activities.ActivityError as e:
            return e
    with shimdt.installed(progression):      # activities keep their state in memory: timestamps stay symbolic
        err = loop.run(main(), max_steps=20000)
    return calls, err


def expected_attempts(script, limit):
    """Reference: how many times a handler with this outcome script is invoked, and whether it ends failed for good."""
    n = 0
    while True:
        if limit is not None and n >= limit:
            return n, True                      # the limit is reached before the next attempt: failed for good
        k = script[n] if n < len(script) else 0
        n += 1
        if k == 0:
            return n, False
        if k == 3:
            return n, True
        if limit is not None and n >= limit:
            return n, True                      # the last allowed attempt failed


def h_activity(a0: int, a1: int, a2: int, b0: int, b1: int, b2: int, da: int, db: int, has_la: bool, la: int, has_lb: bool, lb: int,
               backoff: int) -> bool:
    """
    pre: 0 <= a0 <= 3 and 0 <= a1 <= 3 and 0 <= a2 <= 3 and 0 <= b0 <= 3 and 0 <= b1 <= 3 and 0 <= b2 <= 3
    pre: 0 <= da and 0 <= db and 1 <= la <= 4 and 1 <= lb <= 4 and 0 <= backoff
    post: _ == True
    """
    vkopf.begin_path()
    a0, a1, b0, b1 = vkopf.pin('a0', a0), vkopf.pin('a1', a1), vkopf.pin('b0', b0), vkopf.pin('b1', b1)
    has_la, has_lb = vkopf.pin('has_la', has_la), vkopf.pin('has_lb', has_lb)
    a2, b2 = vkopf.pin('a2', a2), vkopf.pin('b2', b2)
    ln = vkopf.cell().get('len', 3)
    scripts = [[a0, a1, a2][:ln], [b0, b1, b2][:ln]]
    if la > ln + 1 or lb > ln + 1:
        return True                             # limits beyond the script length + 1 behave alike
    delays = [da, db]
    limits = [la if has_la else None, lb if has_lb else None]
    try:
        calls, err = run_activity_script(scripts, delays, limits, backoff)
    except (Deadlock, Diverged, Livelock):
        return vkopf.verdict(False)
    ok = True
    failed_any = False
    for i in (0, 1):
        want_n, want_failed = expected_attempts(scripts[i], limits[i])
        failed_any = failed_any or want_failed
        # invoked exactly as often as its own outcomes and limits say -- whatever the other handler does meanwhile
        if len(calls[i]) != want_n:
            ok = False
        if [r for (_, r) in calls[i]] != list(range(len(calls[i]))):
            ok = False                          # the retry counter counts this handler's own attempts
        # never sooner than the requested delay / the backoff after the previous attempt
        for j in range(1, len(calls[i])):
            k = scripts[i][j - 1]
            need = delays[i] if k == 1 else backoff
            if calls[i][j][0] < calls[i][j - 1][0] + need:
                ok = False
        if len(calls[i]) > 1:
            vkopf.witness('retried')
    if (err is not None) != failed_any:
        ok = False
    if failed_any:
        vkopf.witness('activity_failed')
    return vkopf.verdict(ok)


def obligations():
    obs = split(Ob('h_table', {}, timeout=900, twins=['retry_scheduled', 'failed_for_good']), kind=[0, 1, 2, 3], mode=[0, 1, 2, 3])
    # activities: the outcome scripts are pinned per cell; delays, backoff and the retries limits are symbolic
    for (a0, a1, b0, b1, hla, hlb) in ((1, 0, 2, 0, False, False), (2, 1, 1, 0, True, False), (1, 1, 1, 2, True, True), (2, 3, 1, 1, False, True)):
        obs.append(Ob('h_activity', {'len': 2, 'pin': {'a0': a0, 'a1': a1, 'b0': b0, 'b1': b1, 'has_la': hla, 'has_lb': hlb}}, tiers=('quick',),
                      timeout=900))
    obs.append(Ob('h_activity', {'len': 2, 'pin': {'a0': 1, 'b0': 2}}, tiers=('quick', 'thorough'), timeout=300, twins=['retried', 'activity_failed'],
                  main=False))
    obs += sample(Ob('h_activity', {'len': 2}, tiers=('thorough',), timeout=900), 64, seed=111, a0=[0, 1, 2, 3], b0=[1, 2], a1=[0, 1, 2, 3], b1=[0, 1, 2],
                  has_la=[False, True], has_lb=[False, True])
    obs += sample(Ob('h_activity', {'len': 3, 'pin': {'has_lb': False}}, tiers=('thorough',), timeout=900), 24, seed=112, a0=[1, 2], b0=[1, 2], a1=[1, 2],
                  b1=[1, 2], a2=[0, 1, 3], b2=[0, 2], has_la=[False, True])
    return obs
