"""C14 — resume handlers run once per object per operator process.

Closed loop (real pipeline + FakeServer) with listing events re-delivered by "reconnect / 410 re-list" steps, edits
before/during/after the resume cycle, a resume handler that fails first, restarts; handlers: resume,
resume(deleted=True), resume(deleted=False), create, update.
"""
import asyncio
import copy
import logging

import kopf
import vkopf
from vkopf.driver_api import Ob, split, sample
from vkopf.loop import ClosedLoop, read_lhc, progress_keys
from vkopf.symloop import Deadlock, Diverged, Livelock, cancel_all_others
from vkopf.world import base_body, PLURAL

from kopf._core.intents import causes, registries
from kopf._core.reactor import inventory, processing

logging.disable(logging.CRITICAL)
ENCODED = [processing._detect_causes, processing.process_changing_cause, causes.detect_changing_cause,
           registries.ChangingRegistry.iter_handlers, inventory.ResourceMemories.recall]
META = {
    'bounds': 'filtered_resume cells: the only resume handler is filtered out (label) when the process first sees the object; step label_on. one object; <=3 script steps (thorough 4) from {re-list (listing event in the same process), essential edit, restart (new '
              'process + listing), resume handler fails next time, delete request, non-essential edit, deletion requested while the operator is down}; the object was handled before '
              '(cell) or is new; quiescence bounded by 14 events.',
    'outside': 'several objects; watch-stream mechanics of a 410 (C19): a re-list is modelled as a listing event for the object',
    'stubs': ['api.patch -> FakeServer'],
    'assumptions': [],
}
STEPS = ['relist', 'edit', 'restart', 'fail_next_resume', 'delete', 'status_edit', 'delete_while_down', 'label_on']


def run_history(cell, steps):
    w = ClosedLoop(base_body(), storage=cell.get('storage', 'smart'))
    if cell.get('filtered_resume'):
        # the only resume handler is filtered out when the process first sees the object: that first cycle selects NO handler
        # (and still counts as "handled once": a label added later is an update, not a late resumption)
        w.add_handler(kopf.on.update, 'hu')
        w.add_handler(kopf.on.resume, 'hrl', labels={'run': 'yes'})
    else:
        w.add_handler(kopf.on.create, 'hc')
        w.add_handler(kopf.on.update, 'hu')
        w.add_handler(kopf.on.resume, 'hr')
        w.add_handler(kopf.on.resume, 'hrd', deleted=True)
        w.add_handler(kopf.on.resume, 'hrn', deleted=False)      # an explicit opt-out is an opt-out, too
        if cell.get('delete_handler', True):
            w.add_handler(kopf.on.delete, 'hd')
    listings = []     # (incarnation, handled_before, deleting) at each listing event

    async def listing():
        obj = w.server.obj
        if obj is None:
            return
        listings.append((w.incarnation, read_lhc(obj, w.storage) is not None and not progress_keys(obj, w.storage),
                         obj['metadata'].get('deletionTimestamp') is not None, obj['metadata'].get('labels', {}).get('run') == 'yes'))
        w.needs_listing = False
        await w.deliver_listing()

    async def main():
        try:
            if cell.get('handled_before', True):
                await w.deliver()                  # a previous life: created and handled ...
                await w.settle()
                w.restart()                        # ... then the operator starts anew
                w.delivered_rv = None
                w.invocations.clear()
            await listing()
            for s in steps:
                if w.server.obj is None:
                    break
                name = STEPS[s]
                if name == 'relist':
                    await listing()
                    continue
                if name == 'edit':
                    w.server.write(lambda o: o['spec'].update(x=o['spec']['x'] + 1))
                elif name == 'label_on':
                    w.server.write(lambda o: o['metadata'].setdefault('labels', {}).update(run='yes'))
                elif name == 'status_edit':
                    w.server.write(lambda o: o.setdefault('status', {}).update(seen='y'))
                elif name == 'restart':
                    w.restart()
                    w.delivered_rv = None
                    await listing()
                    continue
                elif name == 'delete_while_down':
                    # the deletion is requested while no operator runs; the next one finds the object already marked
                    w.restart()
                    w.delivered_rv = None
                    w.server.write(lambda o: o['metadata'].update(deletionTimestamp='2020-01-01T00:00:00Z'))
                    await listing()
                    continue
                elif name == 'fail_next_resume':
                    for hid in ('hrd',):      # one of the two resume handlers fails temporarily, the other succeeds
                        n = len([i for i in w.invocations if i['id'] == hid])
                        seq = w.outcomes.setdefault(hid, [])
                        while len(seq) <= n:
                            seq.append(0)
                        seq[n] = 1
                    continue
                elif name == 'delete':
                    w.server.write(lambda o: o['metadata'].update(deletionTimestamp='2020-01-01T00:00:00Z'))
                if w.server.obj is not None:
                    await w.deliver()
            conv = await w.settle(max_events=14)
            if w.server.obj is not None:
                await listing()                    # a late re-listing never re-runs anything
                await w.settle(max_events=6)
            return conv
        finally:
            await cancel_all_others()
    conv = w.run(main(), max_steps=30000)
    return w, listings, conv


def h_resume(s0: int, s1: int, s2: int, s3: int) -> bool:
    """
    pre: 0 <= s0 <= 6 and 0 <= s1 <= 6 and 0 <= s2 <= 6 and 0 <= s3 <= 6
    post: _ == True
    """
    vkopf.begin_path()
    c = vkopf.cell()
    s0, s1, s2 = vkopf.pin('s0', s0), vkopf.pin('s1', s1), vkopf.pin('s2', s2)
    n = c.get('n', 3)
    steps = [s0, s1, s2, s3][:n]
    try:
        w, listings, conv = run_history(c, steps)
    except (Deadlock, Diverged, Livelock):
        return vkopf.verdict(False)
    ok = bool(conv)
    incs = sorted({l[0] for l in listings})
    if c.get('filtered_resume'):
        for inc in incs:
            first = [l for l in listings if l[0] == inc][0]
            ran = [i for i in w.invocations if i['id'] == 'hrl' and i['incarnation'] == inc]
            if not first[3]:
                vkopf.witness('filtered_at_first_sight')
                if ran:
                    ok = False                   # filtered out when first seen by this process: never resumed later in it
            elif first[1] and not first[2] and inc == incs[-1] and not any(i['outcome'] == 0 for i in ran):
                ok = False
            if len([i for i in ran if i['outcome'] == 0]) > 1:
                ok = False
        return vkopf.verdict(ok)
    for inc in incs:
        for hid in ('hr', 'hrd', 'hrn'):
            succ = [i for i in w.invocations if i['id'] == hid and i['incarnation'] == inc and i['outcome'] == 0]
            if len(succ) > 1:
                ok = False                       # at most one completion per object per process
            if succ:
                vkopf.witness('resumed')
        # it does happen for a pre-existing, handled object (first listing of the process), unless it is being deleted
        first = [l for l in listings if l[0] == inc][0]
        last_inc = inc == incs[-1]
        if first[1] and last_inc:
            deleted_later = any(STEPS[s] in ('delete', 'delete_while_down') for s in steps)
            got_hr = any(i['id'] == 'hr' and i['incarnation'] == inc and i['outcome'] == 0 for i in w.invocations)
            got_hrd = any(i['id'] == 'hrd' and i['incarnation'] == inc and i['outcome'] == 0 for i in w.invocations)
            if not first[2] and not deleted_later and not (got_hr and got_hrd):
                ok = False
            got_hrn = any(i['id'] == 'hrn' and i['incarnation'] == inc and i['outcome'] == 0 for i in w.invocations)
            if not first[2] and not deleted_later and not got_hrn:
                ok = False
            if first[2] and (got_hr or got_hrn):
                ok = False                       # not for objects being deleted unless opted in
    # resume handlers never run on an object marked for deletion unless they opted in
    for i in w.invocations:
        if i['id'] in ('hr', 'hrn') and i.get('deleting'):
            ok = False
    # not handled before (a new object): creation never mixes with resuming in the same process ... until handled
    return vkopf.verdict(ok)


def obligations():
    obs = split(Ob('h_resume', {'n': 2, 'handled_before': True}, timeout=1200, path_timeout=300, twins=['resumed']),
                s0=list(range(7)))
    obs.append(Ob('h_resume', {'n': 3, 'handled_before': True, 'pin': {'s0': 3, 's1': 2, 's2': 1}}, timeout=900, path_timeout=300))
    obs.append(Ob('h_resume', {'n': 3, 'handled_before': True, 'pin': {'s0': 3, 's1': 2, 's2': 0}}, timeout=900, path_timeout=300))
    for (a, b) in ((7, 1), (7, 2), (1, 7)):
        obs.append(Ob('h_resume', {'n': 2, 'handled_before': True, 'filtered_resume': True, 'pin': {'s0': a, 's1': b}}, timeout=900, path_timeout=300,
                      twins=['filtered_at_first_sight'] if (a, b) == (7, 1) else []))
    R = list(range(7))
    # thorough: the first two steps pinned per cell, the third one symbolic (a path costs ~1.5 s here)
    obs += split(Ob('h_resume', {'n': 3, 'handled_before': False}, timeout=900, path_timeout=300, tiers=('thorough',)), s0=R, s1=[0, 1, 2, 4, 6])
    obs += split(Ob('h_resume', {'n': 3, 'handled_before': True}, timeout=900, path_timeout=300, tiers=('thorough',)), s0=R, s1=R)
    return obs
