"""Shared stubs: an independent RFC 7386 / RFC 6902 fake API server at the `api.patch` boundary,
and a `World` that runs the REAL kopf pipeline (process_resource_event and everything below it:
causes, registries, execution, progression, application, patching) on the virtual-time loop.

Server contract assumed (documented Kubernetes behaviour; part of every claim that uses it):
  merge-patch = RFC 7386; JSON-patch = RFC 6902 (test/add/remove/replace), 422 on a failed test;
  every successful write bumps metadata.resourceVersion; empty metadata.finalizers/labels/annotations
  disappear; an object with deletionTimestamp and no finalizers is removed (later requests: 404);
  with a status subresource, `status` is writable only through /status and /status writes nothing else.
"""
import asyncio
import copy

import kopf
from kopf._cogs.clients import api, errors
from kopf._cogs.configs import configuration
from kopf._cogs.structs import ephemera, references
from kopf._core.actions import lifecycles
from kopf._core.engines import indexing
from kopf._core.intents import registries
from kopf._core.reactor import inventory, processing

from vkopf.symloop import SymLoop

FIN = 'kopf.zalando.org/KopfFinalizerMarker'
LHC = 'kopf.zalando.org/last-handled-configuration'
GROUP, VERSION, PLURAL = 'kopf.dev', 'v1', 'kopfexamples'


def make_resource(status_subresource=False):
    return references.Resource(GROUP, VERSION, PLURAL, namespaced=True, kind='KopfExample',
                               subresources=frozenset(['status']) if status_subresource else frozenset())


# ---------------------------------------------------------------- independent reference semantics
def rfc7386(target, patch):
    """RFC 7386 merge; never aliases its inputs."""
    return _merge(copy.deepcopy(target), patch)


def _merge(target, patch):
    if isinstance(patch, dict):
        target = dict(target) if isinstance(target, dict) else {}
        for k, v in patch.items():
            if v is None:
                target.pop(k, None)
            else:
                target[k] = _merge(target.get(k), v)
        return target
    return copy.deepcopy(patch)


class PatchTestFailed(Exception):
    pass


def _ptr(path):
    if path == '':
        return []
    return [p.replace('~1', '/').replace('~0', '~') for p in path.lstrip('/').split('/')]


def rfc6902(doc, ops):
    """add/remove/replace/test only (what kopf emits). Raises PatchTestFailed / KeyError."""
    doc = copy.deepcopy(doc)
    for op in ops:
        parts = _ptr(op['path'])
        parent = doc
        for p in parts[:-1]:
            parent = parent[int(p)] if isinstance(parent, list) else parent[p]
        last = parts[-1] if parts else None
        kind = op['op']
        if kind == 'test':
            cur = (parent[int(last)] if isinstance(parent, list) else parent.get(last)) if parts else doc
            if cur != op['value']:
                raise PatchTestFailed(op['path'])
        elif kind == 'add':
            if isinstance(parent, list):
                if last == '-':
                    parent.append(copy.deepcopy(op['value']))
                else:
                    parent.insert(int(last), copy.deepcopy(op['value']))
            else:
                parent[last] = copy.deepcopy(op['value'])
        elif kind == 'replace':
            if isinstance(parent, list):
                parent[int(last)] = copy.deepcopy(op['value'])
            else:
                if last not in parent:
                    raise KeyError(op['path'])
                parent[last] = copy.deepcopy(op['value'])
        elif kind == 'remove':
            if isinstance(parent, list):
                del parent[int(last)]
            else:
                del parent[last]
        else:
            raise ValueError(f'unsupported op {kind}')
    return doc


class FakeServer:
    """One object (name 'n' in namespace 'ns'); enough for the single-object properties."""

    def __init__(self, obj, status_subresource=False, clock=None):
        self.obj = copy.deepcopy(obj)   # None = absent
        self.rv = int(obj['metadata'].get('resourceVersion', '10')) if obj else 10
        self.status_subresource = status_subresource
        self.requests = []     # dicts: t, ctype, sub, payload, result
        self.log = []          # (rv, snapshot) after every successful write
        self.clock = clock or (lambda: 0)
        self.pre_request = None   # hook(i, server) called before the i-th request is applied
        self.fail_with = {}       # request index -> status code to fail with (no effect on the object)
        self.deleted_events = 0

    def _normalize(self):
        meta = self.obj.get('metadata', {})
        for k in ('finalizers', 'labels', 'annotations'):
            if k in meta and not meta[k]:
                del meta[k]
        if meta.get('deletionTimestamp') and not meta.get('finalizers'):
            self.obj = None
            self.deleted_events += 1

    def write(self, mutate):
        """A foreign (non-kopf) write."""
        if self.obj is None:
            return
        mutate(self.obj)
        self.rv += 1
        self.obj['metadata']['resourceVersion'] = str(self.rv)
        self.log.append((self.rv, copy.deepcopy(self.obj)))
        self._normalize()

    async def patch(self, url, *, headers, payload, settings=None, logger=None, timeout=None):
        idx = len(self.requests)
        sub = 'status' if url.endswith('/status') else None
        ctype = headers['Content-Type']
        rec = {'t': self.clock(), 'ctype': ctype, 'sub': sub, 'payload': copy.deepcopy(payload), 'result': None}
        self.requests.append(rec)
        if self.pre_request is not None:
            self.pre_request(idx, self)
        if idx in self.fail_with:
            rec['result'] = self.fail_with[idx]
            raise errors.APIError(None, status=self.fail_with[idx], headers={})
        if self.obj is None:
            rec['result'] = 404
            raise errors.APINotFoundError(None, status=404, headers={})
        before = self.obj
        if ctype.startswith('application/merge-patch'):
            after = rfc7386(before, payload)
        else:
            try:
                after = rfc6902(before, payload)
            except (PatchTestFailed, KeyError, IndexError, TypeError, ValueError):
                # a failed `test`, or an op that does not apply to the current document: rejected as a whole
                rec['result'] = 422
                raise errors.APIUnprocessableEntityError(None, status=422, headers={})
        if self.status_subresource:
            if sub == 'status':
                merged = copy.deepcopy(before)
                if 'status' in after:
                    merged['status'] = after['status']
                else:
                    merged.pop('status', None)
                after = merged
            else:
                if 'status' in before:
                    after['status'] = copy.deepcopy(before['status'])
                else:
                    after.pop('status', None)
        # identity and system fields are not writable
        after.setdefault('metadata', {})
        for k in ('uid', 'name', 'namespace'):
            if k in before.get('metadata', {}):
                after['metadata'][k] = before['metadata'][k]
        self.rv += 1
        after['metadata']['resourceVersion'] = str(self.rv)
        self.obj = after
        self.log.append((self.rv, copy.deepcopy(after)))
        result = copy.deepcopy(after)
        self._normalize()
        if self.obj is not None:
            result = copy.deepcopy(self.obj)
        rec['result'] = 200
        rec['rv'] = self.rv
        return result


def base_body(spec=None, **meta):
    m = {'name': 'n', 'namespace': 'ns', 'uid': 'u1', 'resourceVersion': '10'}
    m.update(meta)
    return {'apiVersion': f'{GROUP}/{VERSION}', 'kind': 'KopfExample', 'metadata': m,
            'spec': {'x': 1} if spec is None else spec}


class World:
    """The real per-object pipeline over a FakeServer. One operator incarnation = one `memories`."""

    def __init__(self, obj, *, status_subresource=False, lifecycle=None, settings=None, loop=None, tmode='concrete'):
        self.tmode = tmode      # 'concrete': virtual wall clock with real datetimes; 'symbolic': affine datetime shim
        self.loop = loop or SymLoop()
        self.resource = make_resource(status_subresource)
        self.server = FakeServer(obj, status_subresource, clock=lambda: self.loop._now)
        self.registry = registries.OperatorRegistry()
        self.settings = settings or configuration.OperatorSettings()
        self.settings.persistence.finalizer = FIN
        self.lifecycle = lifecycle or lifecycles.all_at_once
        self.calls = []
        self.restart()

    def restart(self):
        """A new operator process: all in-memory state is lost."""
        self.memories = inventory.ResourceMemories()
        self.indexers = indexing.OperatorIndexers()
        self.incarnation = getattr(self, 'incarnation', 0) + 1

    _installed = 0
    _saved = None

    def _install(self):
        """Rebind the stubs (re-entrant: several process() calls of one World may be in flight)."""
        from kopf._core.actions import progression as _progression
        if World._installed == 0:
            World._saved = (api.patch, _progression.datetime, _progression.iso8601)
            orig_dt = _progression.datetime
            if orig_dt.__name__ == 'datetime' and getattr(orig_dt, '__file__', None):   # the real module: go virtual
                if self.tmode == 'symbolic':
                    from vkopf import shimdt
                    _progression.datetime, _progression.iso8601 = shimdt.datetime_module, shimdt.iso8601_module
                else:
                    from vkopf import vclock
                    _progression.datetime = vclock.module
        World._installed += 1
        api.patch = self.server.patch

    def _restore(self):
        from kopf._core.actions import progression as _progression
        World._installed -= 1
        if World._installed == 0:
            api.patch, _progression.datetime, _progression.iso8601 = World._saved

    async def process(self, raw_type, body=None, **kw):
        body = copy.deepcopy(self.server.obj if body is None else body)
        self._install()
        try:
            return await processing.process_resource_event(
                lifecycle=self.lifecycle, indexers=self.indexers, registry=self.registry,
                settings=self.settings, memories=self.memories, memobase=ephemera.Memo(),
                resource=self.resource, raw_event={'type': raw_type, 'object': body},
                event_queue=asyncio.Queue(), no_throttling=kw.pop('no_throttling', True), **kw)
        finally:
            self._restore()

    def run(self, coro, **kw):
        # the stubs stay installed for the whole run: daemons/timers touch `progression` outside of process()
        self._install()
        try:
            return self.loop.run(coro, **kw)
        finally:
            self._restore()
