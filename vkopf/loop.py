"""Closed loop: the real per-object pipeline fed back through the FakeServer, with scripted handler outcomes,
external steps, restarts and kills. Used by C02, C03, C14 (and C06/C09 variants)."""
import asyncio
import copy
import json

import kopf
from kopf._cogs.configs import diffbase, progress
from kopf._core.actions import lifecycles

from vkopf.world import World, base_body, FIN, LHC, PLURAL


class Killed(BaseException):
    """The operator process dies (kill -9): raised out of an API request, caught only by the harness."""


LIFECYCLES = {'all_at_once': lifecycles.all_at_once, 'one_by_one': lifecycles.one_by_one, 'asap': lifecycles.asap}


def configure_storage(settings, kind):
    if kind == 'annotations':
        settings.persistence.progress_storage = progress.AnnotationsProgressStorage()
        settings.persistence.diffbase_storage = diffbase.AnnotationsDiffBaseStorage()
    elif kind == 'status':
        settings.persistence.progress_storage = progress.StatusProgressStorage()
        settings.persistence.diffbase_storage = diffbase.StatusDiffBaseStorage()
    # 'smart' = the defaults (SmartProgressStorage + AnnotationsDiffBaseStorage)


def read_record(obj, hid, storage):
    """Independent reader of a handler's progress record on the server object."""
    if obj is None:
        return None
    if storage in ('annotations', 'smart'):
        raw = obj.get('metadata', {}).get('annotations', {}).get(f'kopf.zalando.org/{hid.replace("/", ".")}')
        if raw is not None:
            return json.loads(raw)
    if storage in ('status', 'smart'):
        rec = obj.get('status', {}).get('kopf', {}).get('progress', {}).get(hid)
        if rec is not None:
            return rec
    return None


def read_lhc(obj, storage):
    if obj is None:
        return None
    if storage == 'status':
        raw = obj.get('status', {}).get('kopf', {}).get('last-handled-configuration')
    else:
        raw = obj.get('metadata', {}).get('annotations', {}).get(LHC)
    return json.loads(raw) if raw is not None else None


def progress_keys(obj, storage):
    if obj is None:
        return []
    keys = []
    if storage in ('annotations', 'smart'):
        for k in obj.get('metadata', {}).get('annotations', {}):
            if k.startswith('kopf.zalando.org/') and k not in (LHC, 'kopf.zalando.org/touch-dummy', 'kopf.zalando.org/kopf-managed'):
                keys.append(k)
    if storage in ('status', 'smart'):
        keys += list(obj.get('status', {}).get('kopf', {}).get('progress', {}) or {})
    return keys


class ClosedLoop(World):
    def __init__(self, obj, *, storage='smart', lifecycle='all_at_once', status_subresource=False):
        super().__init__(obj, status_subresource=status_subresource, lifecycle=LIFECYCLES[lifecycle])
        self.storage = storage
        configure_storage(self.settings, storage)
        self.invocations = []     # dicts: id, retry, t, incarnation, spec, reason, server_record, outcome
        self.outcomes = {}        # handler id -> list of scripted outcomes (consumed per invocation); default ok
        self.violations = []
        self.delivered_rv = None
        self.first_event = True
        self.kill_at = None       # (request index, 'before'|'after')
        self.events = 0

    # ---- handlers
    def add_handler(self, deco, hid, **kw):
        loop = self

        async def fn(retry, reason, spec, **kwargs):
            rec = read_record(loop.server.obj, hid, loop.storage)
            seq = loop.outcomes.get(hid, [])
            n = len([i for i in loop.invocations if i['id'] == hid])
            out = seq[n] if n < len(seq) else 0
            loop.invocations.append({'id': hid, 'retry': retry, 't': loop.loop._now, 'incarnation': loop.incarnation,
                                     'spec': dict(spec), 'reason': str(reason), 'server_record': rec, 'outcome': out,
                                     'event': loop.events, 'old': copy.deepcopy(kwargs.get('old')),
                                     'new': copy.deepcopy(kwargs.get('new')), 'diff': list(kwargs.get('diff') or ()),
                                     'rv': kwargs['meta'].get('resourceVersion'),
                                     'deleting': kwargs['meta'].get('deletionTimestamp') is not None})
            if out == 1:
                raise kopf.TemporaryError('temporary', delay=loop.outcome_delay)
            if out == 2:
                raise kopf.PermanentError('permanent')
            if out == 3:
                raise ValueError('arbitrary')
        fn.__name__ = hid
        deco(PLURAL, id=hid, registry=self.registry, **kw)(fn)
        return fn

    outcome_delay = 5

    def add_parent_handler(self, deco, hid, subs, **kw):
        """A handler that declares sub-handlers (@kopf.subhandler) on every attempt in which it gets that far.
        Outcome 4 of the parent = PermanentError raised BEFORE the sub-handlers are declared."""
        loop = self

        def record(the_id, retry, reason, spec, kwargs):
            rec = read_record(loop.server.obj, the_id, loop.storage)
            seq = loop.outcomes.get(the_id, [])
            n = len([i for i in loop.invocations if i['id'] == the_id])
            out = seq[n] if n < len(seq) else 0
            loop.invocations.append({'id': the_id, 'retry': retry, 't': loop.loop._now, 'incarnation': loop.incarnation,
                                     'spec': dict(spec), 'reason': str(reason), 'server_record': rec, 'outcome': out,
                                     'event': loop.events, 'old': copy.deepcopy(kwargs.get('old')),
                                     'new': copy.deepcopy(kwargs.get('new')), 'diff': list(kwargs.get('diff') or ()),
                                     'rv': kwargs['meta'].get('resourceVersion'),
                                     'deleting': kwargs['meta'].get('deletionTimestamp') is not None})
            return out

        def raise_for(out):
            if out == 1:
                raise kopf.TemporaryError('temporary', delay=loop.outcome_delay)
            if out == 2:
                raise kopf.PermanentError('permanent')
            if out == 3:
                raise ValueError('arbitrary')

        async def parent(retry, reason, spec, **kwargs):
            out = record(hid, retry, reason, spec, kwargs)
            if out == 4:
                raise kopf.PermanentError('parent gives up before declaring its sub-handlers')
            for sub in subs:
                def make(sub_id):
                    async def subfn(retry, reason, spec, **kw2):
                        raise_for(record(f'{hid}/{sub_id}', retry, reason, spec, kw2))
                    return subfn
                kopf.subhandler(id=sub)(make(sub))
            raise_for(out)
        parent.__name__ = hid
        deco(PLURAL, id=hid, registry=self.registry, **kw)(parent)

    # ---- the kill hook
    def arm_kill(self, at_request, mode):
        """Kill the operator at its at_request-th request from now: before or after the server applies it."""
        base = len(self.server.requests)
        self.kill_at = (base + at_request, mode)
        orig_patch = self.server.patch
        world = self

        async def patch(url, **kw):
            idx = len(world.server.requests)
            if world.kill_at is not None and idx == world.kill_at[0]:
                mode_ = world.kill_at[1]
                world.kill_at = None
                world.server.patch = orig_patch
                if mode_ == 'before':
                    raise Killed()
                try:
                    await orig_patch(url, **kw)
                finally:
                    pass
                raise Killed()
            return await orig_patch(url, **kw)
        self.server.patch = patch

    # ---- the pump
    async def deliver(self, raw_type=None):
        if self.server.obj is None:
            return None
        if raw_type is None:
            raw_type = 'ADDED' if self.first_event else 'MODIFIED'
        self.first_event = False
        self.delivered_rv = self.server.obj['metadata']['resourceVersion']
        self.events += 1
        try:
            return await self.process(raw_type)
        except Killed:
            await self._die()
            return 'killed'

    async def deliver_listing(self):
        self.first_event = False
        if self.server.obj is None:
            return None
        self.delivered_rv = self.server.obj['metadata']['resourceVersion']
        self.events += 1
        try:
            return await self.process(None)
        except Killed:
            await self._die()
            return 'killed'

    async def _die(self):
        # all tasks of the dead process vanish; a new process starts and lists the object
        from vkopf.symloop import cancel_all_others
        await cancel_all_others()
        self.restart()
        self.delivered_rv = None
        self.needs_listing = True

    needs_listing = False

    async def settle(self, max_events=12):
        """Feed the object back while the server version moves (the watch echo), bounded."""
        n = 0
        while self.server.obj is not None and n < max_events:
            if self.needs_listing:
                self.needs_listing = False
                n += 1
                await self.deliver_listing()
                continue
            rv = self.server.obj['metadata']['resourceVersion']
            if rv == self.delivered_rv:
                return True
            n += 1
            await self.deliver()
        return self.server.obj is None or self.server.obj['metadata']['resourceVersion'] == self.delivered_rv

    def graceful_restart(self):
        self.restart()
        self.delivered_rv = None
        self.needs_listing = True
