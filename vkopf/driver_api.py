from dataclasses import dataclass, field
from typing import Any, Dict, List, Optional, Sequence


@dataclass
class Ob:
    """One obligation: a harness function analysed in one partition cell."""
    fn: str
    cell: Dict[str, Any] = field(default_factory=dict)
    tiers: Sequence[str] = ('quick', 'thorough')
    timeout: float = 300            # CPU seconds per condition (CrossHair budget)
    path_timeout: float = 120
    twins: Sequence[str] = ()       # vacuity twins: tags whose negated oracle must be refuted
    expect: str = 'confirmed'       # 'confirmed' | 'counterexample' (known-finding witnesses)
    finding: Optional[str] = None   # id in known_findings.json for expect == 'counterexample'
    engine: str = 'crosshair'       # 'crosshair' | 'smt'
    main: bool = True               # False: only the vacuity twins of this (un-split) cell are run


def split(ob, **dims):
    """Expand one obligation into the product of concrete values of the named harness arguments (cells)."""
    import itertools
    names = list(dims)
    out = []
    for combo in itertools.product(*[dims[n] for n in names]):
        cell = dict(ob.cell)
        cell['pin'] = dict(cell.get('pin') or {}, **dict(zip(names, combo)))
        out.append(Ob(ob.fn, cell, ob.tiers, ob.timeout, ob.path_timeout, (), ob.expect, ob.finding, ob.engine))
    if ob.twins:
        out.append(Ob(ob.fn, dict(ob.cell), ob.tiers, ob.timeout, ob.path_timeout, ob.twins, ob.expect, ob.finding, ob.engine, main=False))
    return out


def sample(ob_, k_, seed=1, **dims):
    """A deterministic sample of `k_` cells of the product of the named dimensions (fixed seed, shifted by VERIF_SEED).
    Used where the full product of fully pinned cells is out of reach; the evidence lists exactly which cells were run."""
    import itertools
    import random
    names = list(dims)
    combos = list(itertools.product(*[dims[n] for n in names]))
    import os
    # VERIF_SEED (if the caller sets one) shifts the sample: the same seed gives the same cells, another seed other cells
    rnd = random.Random(seed + 1000 * int(os.environ.get('VERIF_SEED', '0') or 0))
    if k_ < len(combos):
        combos = rnd.sample(combos, k_)
    out = []
    for combo in sorted(combos, key=repr):
        cell = dict(ob_.cell)
        cell['pin'] = dict(cell.get('pin') or {}, **dict(zip(names, combo)))
        out.append(Ob(ob_.fn, cell, ob_.tiers, ob_.timeout, ob_.path_timeout, (), ob_.expect, ob_.finding, ob_.engine))
    return out
