import argparse
import os
import sys

from vkopf import driver


def main():
    ap = argparse.ArgumentParser()
    sub = ap.add_subparsers(dest='cmd', required=True)
    r = sub.add_parser('run')
    r.add_argument('pid')
    r.add_argument('--tier', default=os.environ.get('VERIF_TIER') or 'quick', choices=['quick', 'thorough'])
    r.add_argument('--jobs', type=int, default=None)
    r.add_argument('--only', nargs='*')
    p = sub.add_parser('replay')
    p.add_argument('path')
    a = ap.parse_args()
    if a.cmd == 'run':
        sys.exit(driver.run_property(a.pid.upper(), a.tier, a.jobs, a.only))
    if a.cmd == 'replay':
        sys.exit(driver.replay_file(a.path))


if __name__ == '__main__':
    main()
