"""E4 — a small translator from the AST of straight-line Python (as found in kopf's key-forming and keep-alive arithmetic)
to z3 terms. The formula is regenerated from the CURRENT source of the function on every run (`inspect.getsource`), so an
edit to the function changes the query.

Supported: assignments, `for k, v in <constant dict>.items()` (unrolled), `str.replace` of one character by another
(a per-character map), `if/elif/else` (paths are enumerated: every `if` forks the path condition), `return`, names,
constants, `self.<attr>` (looked up in the environment as 'self.<attr>'), `len`, `max`, `min`, `int`, f-strings and `+` on strings
(concatenation; strings are (length, character function) pairs, see SStr), slices `s[a:b]` with Python's negative-index/clamping semantics, comparisons, `+ - *`-by-constant on
integers, `and/or/not`, conditional expressions, and calls of `self.<method>(...)` that the caller models through `hooks`
(e.g. an uninterpreted hash with a proven shape). Anything else raises `Unsupported` — the obligation is then reported as a
harness error (never silently skipped).

`translate(fn, env, hooks)` returns a list of (path_condition, result_term): the function's result under each feasible
syntactic path. `evaluate_concrete` pushes concrete inputs through the same terms (translation validation against the real
function on the repository's own test vectors).
"""
import ast
import inspect
import textwrap

import z3


class Unsupported(Exception):
    pass


class SStr:
    """A string as (length term, character function): `ch(i)` is the code point at index term i (meaningful for
    0 <= i < length). Concatenation and slicing compose the functions, so no sequence theory and no quantifier is needed:
    every query over strings becomes linear integer arithmetic + uninterpreted functions (decided in milliseconds where
    z3's and cvc5's sequence solvers answer `unknown` at the real sizes: ids of 300 characters, limits 63/253)."""

    def __init__(self, length, ch):
        self.length, self.ch = length, ch


class BaseStr(SStr):
    """A symbolic input string: an integer length and an uninterpreted character function; every index term at which the
    function is applied is recorded, so that universally quantified hypotheses about its characters (e.g. "all in the
    allowed alphabet") can be instantiated exactly where they matter."""

    def __init__(self, name):
        self.name = name
        self.len_var = z3.Int(f'{name}.len')
        self.fn = z3.Function(f'{name}.ch', z3.IntSort(), z3.IntSort())
        self.apps = []
        super().__init__(self.len_var, self._apply)

    def _apply(self, i):
        i = _lift(i)
        if not any(i.eq(a) for a in self.apps):
            self.apps.append(i)
        return self.fn(i)

    def instances(self, pred):
        """The hypothesis `forall j. 0 <= j < len -> pred(j, ch(j))`, instantiated at every recorded application."""
        return [z3.Implies(z3.And(a >= 0, a < self.len_var), pred(a, self.fn(a))) for a in list(self.apps)]

    def concrete(self, model, default='a'):
        n = model.eval(self.len_var, model_completion=True).as_long()
        chars = [default] * max(n, 0)
        for a in self.apps:
            idx = model.eval(a, model_completion=True).as_long()
            if 0 <= idx < n:
                chars[idx] = chr(model.eval(self.fn(a), model_completion=True).as_long())
        return ''.join(chars)

    def bind(self, text):
        """Constraints that make this string equal to a concrete text (translation validation)."""
        return [self.len_var == len(text)] + [self.fn(k) == ord(c) for k, c in enumerate(text)]


def s_const(text):
    def ch(i):
        acc = z3.IntVal(0)
        for k in reversed(range(len(text))):
            acc = z3.If(i == k, z3.IntVal(ord(text[k])), acc)
        return acc
    r = SStr(z3.IntVal(len(text)), ch)
    r.const = text
    return r


def s_replace_char(s, old, new):
    """str.replace for single-character arguments: a per-character map (exact)."""
    return SStr(s.length, lambda i: z3.If(s.ch(i) == ord(old), z3.IntVal(ord(new)), s.ch(i)))


def s_eq_const(s, text):
    return z3.And(s.length == len(text), *[s.ch(z3.IntVal(k)) == ord(c) for k, c in enumerate(text)])


def s_endswith_const(s, text):
    n = len(text)
    return z3.And(s.length >= n, *[s.ch(s.length - n + k) == ord(c) for k, c in enumerate(text)])


def s_startswith_const(s, text):
    return z3.And(s.length >= len(text), *[s.ch(z3.IntVal(k)) == ord(c) for k, c in enumerate(text)])


def s_concat(*parts):
    acc = parts[0]
    for b in parts[1:]:
        acc = _concat2(acc, b)
    return acc


def _concat2(a, b):
    return SStr(a.length + b.length, lambda i, a=a, b=b: z3.If(i < a.length, a.ch(i), b.ch(i - a.length)))


def s_ite(c, a, b):
    return SStr(z3.If(c, a.length, b.length), lambda i: z3.If(c, a.ch(i), b.ch(i)))


def _is_str(t):
    return isinstance(t, SStr)


def _lift(v):
    if isinstance(v, bool):
        return z3.BoolVal(v)
    if isinstance(v, int):
        return z3.IntVal(v)
    if isinstance(v, str):
        return s_const(v)
    return v


def py_slice(s, lo, hi):
    """Python's s[lo:hi] on a string (step 1), including negative indices and clamping."""
    n = s.length

    def norm(i, default):
        if i is None:
            return default
        i = _lift(i)
        i = z3.If(i < 0, i + n, i)
        return z3.If(i < 0, z3.IntVal(0), z3.If(i > n, n, i))
    lo_, hi_ = norm(lo, z3.IntVal(0)), norm(hi, n)
    return SStr(z3.If(hi_ - lo_ < 0, z3.IntVal(0), hi_ - lo_), lambda i: s.ch(i + lo_))


def _ite(c, a, b):
    if _is_str(a) or _is_str(b):
        return s_ite(c, a, b)
    return z3.If(c, a, b)


class Opt:
    """An optional number: `x is None` / `x is not None` read the flag, arithmetic reads the value."""

    def __init__(self, has, val):
        self.has, self.val = has, val


def _num(v):
    return v.val if isinstance(v, Opt) else v


def _dotted(node):
    parts = []
    while isinstance(node, ast.Attribute):
        parts.append(node.attr)
        node = node.value
    if not isinstance(node, ast.Name):
        return None
    return '.'.join([node.id] + parts[::-1])


class _Tr:
    def __init__(self, hooks):
        self.hooks = hooks
        self.side = []          # side constraints introduced by hooks (e.g. the shape of a hash suffix)

    # ---- expressions
    def ex(self, node, env):
        if isinstance(node, ast.Constant):
            if node.value is None:
                return None
            return _lift(node.value)
        if isinstance(node, ast.Name):
            if node.id not in env:
                raise Unsupported(f'unknown name {node.id}')
            return env[node.id]
        if isinstance(node, ast.Attribute):
            key = _dotted(node)                          # self.prefix, handler.interval, settings.peering.lifetime: bound by the caller
            if key is None or key not in env:
                raise Unsupported(f'unknown attribute {key}')
            return env[key]
        if isinstance(node, ast.JoinedStr):
            parts = []
            for v in node.values:
                if isinstance(v, ast.Constant):
                    parts.append(s_const(v.value))
                elif isinstance(v, ast.FormattedValue) and v.format_spec is None and v.conversion == -1:
                    t = self.ex(v.value, env)
                    if not _is_str(t):
                        raise Unsupported('f-string of a non-string')
                    parts.append(t)
                else:
                    raise Unsupported('format spec / conversion in f-string')
            if not parts:
                return s_const('')
            if all(getattr(q, 'const', None) is not None for q in parts):
                return s_const(''.join(q.const for q in parts))
            return parts[0] if len(parts) == 1 else s_concat(*parts)
        if isinstance(node, ast.Subscript):
            s = self.ex(node.value, env)
            if not _is_str(s) or not isinstance(node.slice, ast.Slice) or node.slice.step is not None:
                raise Unsupported('only string slices s[a:b]')
            lo = self.ex(node.slice.lower, env) if node.slice.lower is not None else None
            hi = self.ex(node.slice.upper, env) if node.slice.upper is not None else None
            return py_slice(s, lo, hi)
        if isinstance(node, ast.BinOp):
            a, b = _num(self.ex(node.left, env)), _num(self.ex(node.right, env))
            if isinstance(node.op, ast.Add):
                return s_concat(a, b) if _is_str(a) else a + b
            if isinstance(node.op, ast.Sub):
                return a - b
            if isinstance(node.op, ast.Mod) and not _is_str(a):
                return a % b            # Python's % on integers with a positive divisor == SMT-LIB mod
            if isinstance(node.op, ast.Mult) and (z3.is_int_value(a) or z3.is_int_value(b) or z3.is_rational_value(a) or z3.is_rational_value(b)):
                return a * b
            raise Unsupported(f'operator {type(node.op).__name__}')
        if isinstance(node, ast.UnaryOp):
            v = self.ex(node.operand, env)
            if isinstance(node.op, ast.Not):
                return z3.Not(self.truth(v))
            if isinstance(node.op, ast.USub):
                return -v
            raise Unsupported('unary operator')
        if isinstance(node, ast.BoolOp):
            vals = [self.truth(self.ex(v, env)) for v in node.values]
            return z3.And(*vals) if isinstance(node.op, ast.And) else z3.Or(*vals)
        if isinstance(node, ast.Compare):
            left = self.ex(node.left, env)
            out = []
            for op, right in zip(node.ops, node.comparators):
                r = self.ex(right, env)
                if isinstance(op, (ast.Is, ast.IsNot)) and r is None and isinstance(left, Opt):
                    out.append(z3.Not(left.has) if isinstance(op, ast.Is) else left.has)
                    left = r
                    continue
                if isinstance(op, (ast.In, ast.NotIn)) and _is_str(left) and isinstance(r, (tuple, list, frozenset, set)):
                    t = z3.Or(*[s_eq_const(left, c) for c in sorted(r)]) if r else z3.BoolVal(False)
                    out.append(t if isinstance(op, ast.In) else z3.Not(t))
                    left = r
                    continue
                if _is_str(left) or _is_str(r):
                    raise Unsupported('comparison of strings')
                if isinstance(op, ast.LtE):
                    out.append(left <= r)
                elif isinstance(op, ast.Lt):
                    out.append(left < r)
                elif isinstance(op, ast.GtE):
                    out.append(left >= r)
                elif isinstance(op, ast.Gt):
                    out.append(left > r)
                elif isinstance(op, ast.Eq):
                    out.append(left == r)
                elif isinstance(op, ast.NotEq):
                    out.append(left != r)
                else:
                    raise Unsupported(f'comparison {type(op).__name__}')
                left = r
            return out[0] if len(out) == 1 else z3.And(*out)
        if isinstance(node, ast.IfExp):
            return _ite(self.truth(self.ex(node.test, env)), self.ex(node.body, env), self.ex(node.orelse, env))
        if isinstance(node, ast.Call) and isinstance(node.func, ast.Attribute) and node.func.attr in ('endswith', 'startswith') \
                and len(node.args) == 1 and not node.keywords:
            target, arg = self.ex(node.func.value, env), self.ex(node.args[0], env)
            if _is_str(target) and getattr(arg, 'const', None) is not None:
                return (s_endswith_const if node.func.attr == 'endswith' else s_startswith_const)(target, arg.const)
            raise Unsupported('endswith/startswith with a non-constant argument')
        if isinstance(node, ast.Call) and isinstance(node.func, ast.Name) and node.func.id == 'any' and len(node.args) == 1 \
                and isinstance(node.args[0], ast.GeneratorExp) and len(node.args[0].generators) == 1:
            gen = node.args[0].generators[0]
            coll = self.ex(gen.iter, env)
            if gen.ifs or not isinstance(gen.target, ast.Name) or not isinstance(coll, (tuple, list, frozenset, set)):
                raise Unsupported('any() over something else than a constant collection')
            terms = []
            for item in sorted(coll):
                e2 = dict(env)
                e2[gen.target.id] = _lift(item)
                terms.append(self.truth(self.ex(node.args[0].elt, e2)))
            return z3.Or(*terms) if terms else z3.BoolVal(False)
        if isinstance(node, ast.Dict):
            if not all(isinstance(k, ast.Constant) and isinstance(v, ast.Constant) for k, v in zip(node.keys, node.values)):
                raise Unsupported('non-constant dict')
            return {k.value: v.value for k, v in zip(node.keys, node.values)}
        if isinstance(node, ast.Call) and isinstance(node.func, ast.Attribute) and node.func.attr == 'replace' and \
                not (isinstance(node.func.value, ast.Name) and node.func.value.id == 'self'):
            target = self.ex(node.func.value, env)
            args = [self.ex(a, env) for a in node.args]
            if _is_str(target) and len(args) == 2 and all(_is_str(a) and len(getattr(a, 'const', '')) == 1 for a in args):
                return s_replace_char(target, args[0].const, args[1].const)
            raise Unsupported('str.replace with non-constant or multi-character arguments')
        if isinstance(node, ast.Call):
            args = [self.ex(a, env) for a in node.args]
            if node.keywords:
                raise Unsupported('keyword arguments')
            if isinstance(node.func, ast.Name):
                f = node.func.id
                if f == 'len' and len(args) == 1 and _is_str(args[0]):
                    return args[0].length
                if f in ('max', 'min') and len(args) >= 2:
                    acc = args[0]
                    for a in args[1:]:
                        acc = z3.If(a > acc, a, acc) if f == 'max' else z3.If(a < acc, a, acc)
                    return acc
                if f == 'int' and len(args) == 1:
                    a = args[0]
                    if a.sort() == z3.IntSort():
                        return a
                    return z3.If(a >= 0, z3.ToInt(a), -z3.ToInt(-a))      # truncation toward zero
                if f in self.hooks:
                    return self.hooks[f](self, *args)
                raise Unsupported(f'call of {f}')
            if isinstance(node.func, ast.Attribute) and isinstance(node.func.value, ast.Name) and node.func.value.id == 'self':
                name = node.func.attr
                if name in self.hooks:
                    return self.hooks[name](self, *args)
                raise Unsupported(f'no model for self.{name}()')
            if isinstance(node.func, ast.Attribute) and _dotted(node.func) in self.hooks:
                return self.hooks[_dotted(node.func)](self, *args)
            raise Unsupported('call')
        raise Unsupported(type(node).__name__)

    def truth(self, v):
        if z3.is_expr(v) and v.sort() == z3.BoolSort():
            return v
        if _is_str(v):
            return v.length > 0
        if z3.is_expr(v):
            return v != 0
        raise Unsupported('truth value')

    # ---- statements: returns list of (conds, env, returned_term or None)
    def block(self, stmts, conds, env):
        states = [(conds, env, None)]
        for st in stmts:
            nxt = []
            for (c, e, r) in states:
                if r is not None:
                    nxt.append((c, e, r))
                    continue
                nxt.extend(self.stmt(st, c, e))
            states = nxt
        return states

    def stmt(self, st, conds, env):
        if isinstance(st, ast.Expr) and isinstance(st.value, ast.Constant):
            return [(conds, env, None)]                         # docstring
        if isinstance(st, (ast.Assign, ast.AnnAssign)):
            targets = st.targets if isinstance(st, ast.Assign) else [st.target]
            if st.value is None:
                return [(conds, env, None)]
            if len(targets) != 1 or not isinstance(targets[0], ast.Name):
                raise Unsupported('assignment target')
            e = dict(env)
            e[targets[0].id] = self.ex(st.value, env)
            return [(conds, e, None)]
        if isinstance(st, ast.If):
            t = self.truth(self.ex(st.test, env))
            return (self.block(st.body, conds + [t], dict(env)) +
                    self.block(st.orelse, conds + [z3.Not(t)], dict(env)))
        if isinstance(st, ast.Return):
            return [(conds, env, self.ex(st.value, env))]
        if isinstance(st, ast.Pass):
            return [(conds, env, None)]
        if isinstance(st, ast.For) and not st.orelse:
            # only: `for k, v in <constant dict>.items():` -- unrolled
            it = st.iter
            if isinstance(it, ast.Call) and isinstance(it.func, ast.Attribute) and it.func.attr == 'items' and not it.args:
                d = self.ex(it.func.value, env)
                if isinstance(d, dict) and isinstance(st.target, ast.Tuple) and len(st.target.elts) == 2 and \
                        all(isinstance(e, ast.Name) for e in st.target.elts):
                    states = [(conds, env, None)]
                    for k, v in d.items():
                        nxt = []
                        for (c, e, r) in states:
                            if r is not None:
                                nxt.append((c, e, r))
                                continue
                            e2 = dict(e)
                            e2[st.target.elts[0].id], e2[st.target.elts[1].id] = _lift(k), _lift(v)
                            nxt.extend(self.block(st.body, c, e2))
                        states = nxt
                    return states
            raise Unsupported('for loop (only over the items of a constant dict)')
        raise Unsupported(f'statement {type(st).__name__}')


def translate(fn, env, hooks=None):
    """-> (paths, side): paths = [(path_condition_term, result_term)], side = constraints introduced by the hooks."""
    src = textwrap.dedent(inspect.getsource(fn))
    tree = ast.parse(src)
    fdef = tree.body[0]
    if not isinstance(fdef, (ast.FunctionDef, ast.AsyncFunctionDef)):
        raise Unsupported('not a function')
    env = dict(env)
    # defaults of trailing parameters (e.g. max_length: int = 63) unless given by the caller
    args = fdef.args.args
    defaults = fdef.args.defaults
    for a, d in zip(args[len(args) - len(defaults):], defaults):
        if a.arg not in env:
            if not isinstance(d, ast.Constant):
                raise Unsupported('non-constant default')
            env[a.arg] = _lift(d.value)
    for a in args:
        if a.arg != 'self' and a.arg not in env:
            raise Unsupported(f'argument {a.arg} not bound')
    tr = _Tr(hooks or {})
    out = []
    for conds, _e, r in tr.block(fdef.body, [], env):
        if r is None:
            raise Unsupported('a path falls off the end without return')
        out.append((z3.And(*conds) if conds else z3.BoolVal(True), r))
    return out, tr.side


def find_branch(fn, predicate):
    """The body (list of statements) of the first `if/elif` inside `fn` whose test source satisfies `predicate`."""
    src = textwrap.dedent(inspect.getsource(fn))
    tree = ast.parse(src)
    for node in ast.walk(tree):
        if isinstance(node, ast.If) and predicate(ast.unparse(node.test)):
            return node.body
    raise Unsupported('branch not found')


def translate_statements(stmts, env, hooks=None):
    """Straight-line statements -> the environment after them (one path only, else Unsupported)."""
    tr = _Tr(hooks or {})
    states = tr.block(stmts, [], dict(env))
    if len(states) != 1 or states[0][2] is not None:
        raise Unsupported('not straight-line')
    return states[0][1]


def result_term(paths):
    """One value for the function's result: ite over the path conditions (they partition the input space)."""
    (c0, r0) = paths[-1]
    acc = r0
    for c, r in reversed(paths[:-1]):
        acc = _ite(c, r, acc)
    return acc


def evaluate_concrete(result, constraints, timeout_ms=20000):
    """The concrete value of a translated result under constraints that pin every input (translation validation)."""
    s = z3.Solver()
    s.set('timeout', timeout_ms)
    for c in constraints:
        s.add(c)
    if str(s.check()) != 'sat':
        return None
    m = s.model()
    if _is_str(result):
        n = m.eval(result.length, model_completion=True).as_long()
        return ''.join(chr(m.eval(result.ch(z3.IntVal(k)), model_completion=True).as_long()) for k in range(n))
    v = m.eval(result, model_completion=True)
    return v.as_long() if v.sort() == z3.IntSort() else v
