"""SymLoop: a virtual-time asyncio event loop whose clock values may be symbolic.

It models exactly `asyncio.BaseEventLoop._run_once()`:
  * the clock advances only when nothing is ready, to the earliest timer;
  * all timers due at the current instant are moved to the ready queue before any callback runs,
    earliest first; among EQUAL deadlines the order is an arbitrary choice (a symbolic boolean
    per comparison, taken from `ties`; False when the list is used up);
  * only the handles present at the start of an iteration run in it, FIFO.
Real asyncio.Task/Future/Queue/Event/Condition/wait_for/timeout/shield/wait run on top.
"""
import asyncio
import collections
from asyncio import events

try:
    from crosshair.util import ControlFlowException as _CF, NotDeterministic as _ND
    _CONTROL = (_CF, _ND)
except ImportError:  # plain concrete replays without crosshair installed
    _CONTROL = ()


TASK_FAULTS = []


class Deadlock(BaseException):
    """BaseException: kopf's `except Exception` must not swallow harness verdicts."""


class Diverged(BaseException):
    pass


class Livelock(BaseException):
    pass


class SymLoop(asyncio.AbstractEventLoop):
    def __init__(self, start=0):
        self._ready = collections.deque()
        self._timers = []
        self._now = start
        self._closed = False
        self.errors = []
        self.steps = 0
        self._abort = None
        self._clock_reads = 0
        self._ties = []
        self._tie_idx = 0
        self.ties_used = 0

    # --- clock & scheduling
    def time(self):
        self._clock_reads += 1
        if self._clock_reads > 5000:
            raise Livelock("a callback keeps reading the clock without yielding")
        return self._now

    def call_soon(self, callback, *args, context=None):
        h = asyncio.Handle(callback, args, self, context)
        self._ready.append(h)
        return h

    call_soon_threadsafe = call_soon

    def call_later(self, delay, callback, *args, context=None):
        return self.call_at(self._now + delay, callback, *args, context=context)

    def call_at(self, when, callback, *args, context=None):
        self._clock_reads += 1
        if self._clock_reads > 5000:
            raise Livelock("a callback keeps scheduling timers without yielding")
        h = asyncio.TimerHandle(when, callback, args, self, context)
        self._timers.append(h)
        return h

    def _timer_handle_cancelled(self, handle):
        pass

    # --- factories
    def create_future(self):
        return asyncio.Future(loop=self)

    def create_task(self, coro, *, name=None, context=None):
        return asyncio.Task(self._guarded(coro), loop=self, name=name, context=context)

    async def _guarded(self, coro):
        try:
            return await coro
        except BaseException as e:
            if isinstance(e, (TypeError, AttributeError, NameError)):
                # a task dying of a programming error is either a fault of the model (stub/shim) or of the code under
                # test: counted and reported by the driver, never silently swallowed
                TASK_FAULTS.append(f'{type(e).__name__}: {e}'[:200])
            if _CONTROL and isinstance(e, _CONTROL) and self._abort is None:
                self._abort = e
            if isinstance(e, (Livelock, Diverged)) and self._abort is None:
                self._abort = e
            raise

    # --- misc
    def get_debug(self):
        return False

    def is_running(self):
        return True

    def is_closed(self):
        return self._closed

    def call_exception_handler(self, context):
        self.errors.append(context)

    def default_exception_handler(self, context):
        self.errors.append(context)

    async def shutdown_asyncgens(self):
        pass

    async def shutdown_default_executor(self, timeout=None):
        pass

    def add_signal_handler(self, sig, callback, *args):
        raise NotImplementedError

    def remove_signal_handler(self, sig):
        return False

    # --- the driver: a replica of BaseEventLoop._run_once() over virtual time
    def run(self, coro, max_steps=5_000, ties=()):
        events._set_running_loop(self)
        self._ties = list(ties)
        self._tie_idx = 0
        try:
            task = self.create_task(coro)
            while not task.done():
                self._run_once(max_steps)
            return task.result()
        finally:
            events._set_running_loop(None)

    def _tie(self):
        """An arbitrary (solver-chosen) order among timers due at the very same instant."""
        if self._tie_idx < len(self._ties):
            b = self._ties[self._tie_idx]
            self._tie_idx += 1
            self.ties_used += 1
            return b
        return False

    def _run_once(self, max_steps):
        live = [t for t in self._timers if not t._cancelled]
        if not self._ready:
            if not live:
                raise Deadlock("nothing to run and the main task is pending")
            earliest = live[0]._when
            for t in live[1:]:
                if t._when < earliest:
                    earliest = t._when
            if earliest > self._now:
                self._now = earliest
        due = [t for t in live if t._when <= self._now]
        rest = [t for t in live if not (t._when <= self._now)]
        while due:
            best = 0
            for i in range(1, len(due)):
                if due[i]._when < due[best]._when:
                    best = i
                elif due[i]._when == due[best]._when and self._tie():
                    best = i
            self._ready.append(due.pop(best))
        self._timers = rest
        for _ in range(len(self._ready)):
            self.steps += 1
            if self.steps > max_steps:
                raise Diverged("step budget exceeded")
            h = self._ready.popleft()
            self._clock_reads = 0
            if not h._cancelled:
                h._run()
            if self._abort is not None:
                raise self._abort
            for ctx in self.errors:
                exc = ctx.get('exception')
                if _CONTROL and isinstance(exc, _CONTROL):
                    raise exc
                if isinstance(exc, (Livelock, Diverged)):
                    raise exc


async def cancel_all_others():
    tasks = [t for t in asyncio.all_tasks() if t is not asyncio.current_task()]
    for t in tasks:
        t.cancel()
    if tasks:
        await asyncio.gather(*tasks, return_exceptions=True)
