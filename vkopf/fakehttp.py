"""A fake aiohttp-like session injected at the HTTP boundary (credentials.AiohttpSession / context=).

Everything above it is the real kopf client stack: api.request (retries), auth.authenticated, Vault,
errors.check_response, iter_jsonlines, watching.*.
"""
import asyncio
import json

import aiohttp


class FakeContent:
    """Stands in for aiohttp.StreamReader: an async byte-chunk iterator fed by the fake server."""

    def __init__(self, gen):
        self._gen = gen

    def iter_chunked(self, n):
        return self._gen

    def iter_any(self):
        return self._gen

    def __aiter__(self):
        return self._gen


class FakeResponse:
    def __init__(self, status, headers=None, body=None, stream=None):
        self.status = status
        self.headers = dict(headers or {})
        self._body = body
        self.closed = stream is None
        self.content = FakeContent(stream) if stream is not None else None
        self.closed_ev = None       # set by close(): a streaming body that is waiting for data must end like a closed connection

    async def json(self):
        if isinstance(self._body, (dict, list)):
            return self._body
        raise json.JSONDecodeError('not json', '', 0)

    async def text(self):
        return self._body if isinstance(self._body, str) else json.dumps(self._body)

    def raise_for_status(self):
        self.closed = True
        if self.status >= 400:
            raise aiohttp.ClientResponseError(None, (), status=int(self.status))

    def close(self):
        self.closed = True
        if self.closed_ev is not None:
            self.closed_ev.set()

    def attach_stream(self, gen):
        import asyncio as _asyncio
        self.closed = False
        self.closed_ev = _asyncio.Event()
        self.content = FakeContent(gen)
        return self

    def release(self):
        self.closed = True

    async def __aenter__(self):
        return self

    async def __aexit__(self, *a):
        self.closed = True
        return False


class FakeSession:
    """serve(session, method, url, json, headers, timeout) -> FakeResponse | raises aiohttp/asyncio errors."""

    def __init__(self, serve, name='s'):
        self.serve = serve
        self.name = name
        self.closed = False
        self.headers = {'User-Agent': 'vkopf'}
        self.requests = []

    async def request(self, *, method, url, json=None, headers=None, timeout=None, **kw):
        if self.closed:
            raise RuntimeError('Session is closed')
        self.requests.append((method, url))
        return await self.serve(self, method, url, json, headers, timeout)

    async def close(self):
        self.closed = True


class Ctx:
    """An explicit APIContext stand-in for calls with context= (bypasses the vault)."""
    server = 'http://fake'
    default_namespace = None

    def __init__(self, session):
        self.session = session

    def add_response(self, r):
        pass
