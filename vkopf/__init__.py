"""vkopf — solver-based checking of the real kopf code (see /verif/DESIGN.md).

Harness-side helpers. A *harness* is a plain typed function with a PEP316 contract
(`pre:` bounds, `post: _ == True`) that calls the real kopf code and evaluates an oracle.
It is analysed by CrossHair (symbolic execution + z3) through `vkopf.worker`, one
obligation = (harness, cell) per subprocess.
"""
import json
import os

_CELL = json.loads(os.environ.get('VKOPF_CELL', '{}') or '{}')
_TWIN = os.environ.get('VKOPF_TWIN') or None
_PATH_TAGS = set()      # tags witnessed on the current path
TAG_COUNTS = {}         # tag -> number of paths on which it was witnessed
NONTRIVIAL_PATHS = 0
PATHS = 0


def cell(key=None, default=None):
    """The concrete partition cell of the current obligation (enumerated by the driver)."""
    if key is None:
        return _CELL
    return _CELL.get(key, default)


def pin(name, value):
    """A dimension enumerated by the driver: the concrete value of this cell if pinned, else the symbolic argument."""
    pins = _CELL.get('pin') or {}
    return pins[name] if name in pins else value


def choose(sym, options):
    """A symbolic selector over concrete values: the solver still enumerates every option, but each path carries a
    concrete value (needed wherever the value crosses a C boundary or a string codec: json, base64, hashing)."""
    for i, o in enumerate(options[:-1]):
        if sym == i:
            return o
    return options[-1]


def set_cell(c):
    global _CELL
    _CELL = dict(c)


def set_twin(t):
    global _TWIN
    _TWIN = t


def begin_path():
    global PATHS
    PATHS += 1
    _PATH_TAGS.clear()
    if PATHS % 100 == 0 and os.environ.get('VKOPF_PROGRESS'):
        os.write(2, b'[vkopf] paths=%d nontrivial=%d\n' % (PATHS, NONTRIVIAL_PATHS))


def witness(tag):
    """Mark that the oracle's non-trivial branch `tag` was evaluated on this path."""
    global NONTRIVIAL_PATHS
    if not _PATH_TAGS:
        NONTRIVIAL_PATHS += 1
    if tag not in _PATH_TAGS:
        _PATH_TAGS.add(tag)
        TAG_COUNTS[tag] = TAG_COUNTS.get(tag, 0) + 1


def verdict(ok):
    """Return value of a harness. In twin mode the oracle is negated at the witnessed branch:
    the twin must come back *violated*, otherwise the harness is vacuous there."""
    if _TWIN is not None:
        return _TWIN not in _PATH_TAGS
    return True if ok else False


class HarnessError(Exception):
    """The harness/stub itself is wrong (never a property violation)."""
