"""Whole operators on one fake cluster: N x (the REAL running.spawn_tasks + running.run_tasks) sharing one virtual-time
loop and one fake API server, each through its own fake aiohttp session (so the whole client stack is real: api.request,
auth, Vault, errors, scanning, fetching, watching, patching, peering).

The cluster serves one namespaced custom resource (one object) and one cluster-wide peering object; every write is appended
to an ordered change log per kind, and a watch stream is an ordered reader of that log. Every request is logged with its
virtual time and the operator that made it. A *killed* operator is modelled from the cluster's point of view: from that
instant on its connections are dead (every request fails, nothing of it reaches the server) and its tasks are cancelled.

T-concrete: `datetime.now()` inside kopf's progression and peering modules follows the virtual clock (vclock).
"""
import asyncio
import copy
import json
import threading

import aiohttp
import kopf
from kopf._cogs.clients import errors
from kopf._cogs.configs import configuration
from kopf._cogs.structs import credentials
from kopf._core.actions import progression
from kopf._core.engines import peering
from kopf._core.intents import registries
from kopf._core.reactor import inventory, running

from vkopf import vclock
from vkopf.fakehttp import FakeSession, FakeResponse
from vkopf.symloop import SymLoop, cancel_all_others
from vkopf.world import FakeServer, base_body, rfc7386, PLURAL

GROUP = 'kopf.dev'
PEERINGS = 'clusterkopfpeerings'


class NotifyingLog(list):
    """An ordered change log; every reader has its own wake-up event."""

    def __init__(self):
        super().__init__()
        self.readers = []

    def append(self, item):
        super().append(item)
        for ev in self.readers:
            ev.set()


def _rsrc(name, kind, namespaced):
    return {'name': name, 'singularName': kind.lower(), 'kind': kind, 'namespaced': namespaced, 'shortNames': [], 'categories': [],
            'verbs': ['get', 'list', 'watch', 'patch', 'create', 'delete']}


class Cluster:
    def __init__(self, loop, with_peering=True):
        self.loop = loop
        self.server = FakeServer(base_body(), clock=lambda: loop._now)
        self.server.log = NotifyingLog()
        self.with_peering = with_peering
        self.peer = {'apiVersion': f'{GROUP}/v1', 'kind': 'ClusterKopfPeering', 'metadata': {'name': 'default', 'resourceVersion': '1'}}
        self.peer_rv = 1
        self.peer_log = NotifyingLog()
        self.requests = []      # (t, who, method, path)
        self.dead = set()       # operators whose connections are dead (killed)

    async def _stream(self, log, since, resp):
        """An ordered reader of a change log; ends with a connection error when the client closes the response."""
        new = asyncio.Event()
        log.readers.append(new)
        try:
            i = 0
            while True:
                while i >= len(log):
                    if resp.closed:
                        raise aiohttp.ClientConnectionError('the connection was closed by the client')
                    new.clear()
                    w1, w2 = asyncio.ensure_future(new.wait()), asyncio.ensure_future(resp.closed_ev.wait())
                    try:
                        await asyncio.wait({w1, w2}, return_when=asyncio.FIRST_COMPLETED)
                    finally:
                        w1.cancel()
                        w2.cancel()
                rv, snap = log[i]
                i += 1
                if rv > since:
                    yield (json.dumps({'type': 'MODIFIED', 'object': snap}) + '\n').encode()
        finally:
            log.readers.remove(new)

    def session_for(self, who):
        async def serve(sess, method, url, payload, headers, timeout):
            if who in self.dead:
                raise aiohttp.ClientConnectionError('the process is gone')
            path = url[len('http://fake'):]
            m = method.upper()
            self.requests.append((self.loop._now, who, m, path))
            base = path.split('?')[0]
            since = int(path.split('resourceVersion=')[1].split('&')[0]) if 'resourceVersion=' in path else 0
            if m == 'GET':
                if base == '/version':
                    return FakeResponse(200, body={'major': '1', 'minor': '30'})
                if base == '/api':
                    return FakeResponse(200, body={'versions': ['v1']})
                if base == '/apis':
                    return FakeResponse(200, body={'groups': [{'name': GROUP, 'preferredVersion': {'version': 'v1'}, 'versions': [{'version': 'v1'}]}]})
                if base == '/api/v1':
                    return FakeResponse(200, body={'resources': [_rsrc('namespaces', 'Namespace', False), _rsrc('events', 'Event', True)]})
                if base == f'/apis/{GROUP}/v1':
                    rs = [_rsrc(PLURAL, 'KopfExample', True)]
                    if self.with_peering:
                        rs.append(_rsrc(PEERINGS, 'ClusterKopfPeering', False))
                    return FakeResponse(200, body={'resources': rs})
                if base == f'/apis/{GROUP}/v1/{PLURAL}':
                    if 'watch=true' in path:
                        resp = FakeResponse(200)
                        return resp.attach_stream(self._stream(self.server.log, since, resp))
                    return FakeResponse(200, body={'metadata': {'resourceVersion': str(self.server.rv)},
                                                   'items': [copy.deepcopy(self.server.obj)] if self.server.obj else []})
                if base == f'/apis/{GROUP}/v1/{PEERINGS}':
                    if 'watch=true' in path:
                        resp = FakeResponse(200)
                        return resp.attach_stream(self._stream(self.peer_log, since, resp))
                    return FakeResponse(200, body={'metadata': {'resourceVersion': str(self.peer_rv)}, 'items': [copy.deepcopy(self.peer)]})
                if base == f'/apis/{GROUP}/v1/{PEERINGS}/default':
                    return FakeResponse(200, body=copy.deepcopy(self.peer))
                return FakeResponse(404, body={'kind': 'Status', 'message': 'not found', 'code': 404})
            if m == 'PATCH':
                if PEERINGS in base:
                    new = rfc7386(self.peer, payload)
                    self.peer_rv += 1
                    new['metadata']['resourceVersion'] = str(self.peer_rv)
                    self.peer = new
                    self.peer_log.append((self.peer_rv, copy.deepcopy(new)))
                    return FakeResponse(200, body=copy.deepcopy(new))
                try:
                    result = await self.server.patch(base, headers=headers, payload=payload)
                except errors.APIError as e:
                    return FakeResponse(e.status, body={'kind': 'Status', 'message': 'x', 'code': e.status})
                return FakeResponse(200, body=result)
            return FakeResponse(200, body={})
        return FakeSession(serve, name=who)


import contextvars
OWNER = contextvars.ContextVar('vkopf_operator', default=None)


class _NotMine:
    """`ignored=` for run_tasks: kopf treats every task created after an operator's start as that operator's (documented:
    "there is no way to trace who spawned what"); with several operators in ONE event loop -- an artefact of this harness, each
    real operator has a process of its own -- one operator's shutdown would cancel the other's tasks. Ownership is traced through
    a context variable that every task inherits from the task that created it."""

    def __init__(self, name):
        self.name = name

    def __contains__(self, task):
        try:
            return task.get_context().get(OWNER) != self.name
        except Exception:
            return True


class Operator:
    def __init__(self, cluster, name, priority=None, lifetime=60, startup=0):
        self.cluster, self.name = cluster, name
        self.log = []
        self.registry = registries.OperatorRegistry()
        self.settings = configuration.OperatorSettings()
        self.settings.posting.enabled = False
        self.settings.watching.server_timeout = None
        self.settings.watching.client_timeout = None
        self.settings.networking.error_backoffs = [1]
        self.settings.peering.lifetime = lifetime
        self.priority = priority
        self.stop_flag = asyncio.Event()
        self.ready_flag = asyncio.Event()
        self.task = None
        loop = cluster.loop
        log = self.log

        @kopf.on.login(registry=self.registry)
        async def login(**_):
            return credentials.AiohttpSession(server='http://fake', aiohttp_session=cluster.session_for(name))

        @kopf.on.startup(registry=self.registry)
        async def su(**_):
            if startup > 0:
                await asyncio.sleep(startup)
            log.append(('started', loop.time()))

        @kopf.on.create(PLURAL, id='c', registry=self.registry)
        async def c(**_):
            log.append(('create', loop.time()))

        @kopf.on.update(PLURAL, id='u', registry=self.registry)
        async def u(**_):
            log.append(('update', loop.time()))

        @kopf.daemon(PLURAL, id='dm', registry=self.registry)
        async def dm(stopped, **_):
            log.append(('daemon_enter', loop.time()))
            await stopped.wait()
            log.append(('daemon_exit', loop.time()))

    async def start(self):
        # run the whole operator inside a task of its own, so that all of its tasks inherit the ownership mark
        fut = asyncio.get_running_loop().create_future()

        async def boot():
            OWNER.set(self.name)
            try:
                fut.set_result(await self._start())
            except BaseException as e:  # noqa
                fut.set_exception(e)
        ctx = contextvars.copy_context()
        asyncio.get_running_loop().create_task(boot(), context=ctx)
        return await fut

    async def _start(self):
        tasks = await running.spawn_tasks(
            registry=self.registry, settings=self.settings, memories=inventory.ResourceMemories(), clusterwide=True,
            stop_flag=self.stop_flag, ready_flag=self.ready_flag, identity=peering.Identity(self.name),
            priority=self.priority, peering_name='default' if self.priority is not None else None,
            standalone=self.priority is None)
        self.task = asyncio.create_task(running.run_tasks(tasks, ignored=_NotMine(self.name)))
        return self.task

    def stop(self):
        self.log.append(('stop_requested', self.cluster.loop.time()))
        self.stop_flag.set()

    def kill(self):
        """kill -9: nothing of this operator reaches the cluster any more."""
        self.log.append(('killed', self.cluster.loop.time()))
        self.cluster.dead.add(self.name)
        if self.task is not None:
            self.task.cancel()


class installed:
    """The environment of a whole-operator run: virtual wall clock, no OS signal handlers, deterministic credential choice."""

    def __enter__(self):
        self.saved = (progression.datetime, peering.datetime, credentials.random, threading.main_thread, peering.random)
        progression.datetime = vclock.module
        peering.datetime = vclock.module
        credentials.random = type('R', (), {'choice': staticmethod(lambda seq: seq[0])})
        peering.random = type('R', (), {'randint': staticmethod(lambda a, b: a)})       # the shortest keep-alive period
        threading.main_thread = lambda: None
        return self

    def __exit__(self, *a):
        progression.datetime, peering.datetime, credentials.random, threading.main_thread, peering.random = self.saved
        return False
