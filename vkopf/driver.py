"""Driver: selects the obligations of a property for a tier, runs them in parallel worker
processes (CrossHair/z3 per obligation), replays counterexamples concretely against /repo,
matches known findings, writes evidence/<id>.json, and sets the exit code:
   0 = held on everything explored   1 = VIOLATION (replayed)   3 = harness error.
"""
import concurrent.futures
import hashlib
import importlib
import inspect
import json
import os
import subprocess
import sys
import time

ROOT = os.path.dirname(os.path.dirname(os.path.abspath(__file__)))
PY = os.path.join(ROOT, '.venv', 'bin', 'python')
EVID = os.environ.get('VKOPF_EVIDENCE_DIR') or os.path.join(ROOT, 'evidence')   # (redirected only by development runs)
REPLAYS = os.path.join(EVID, 'replays')
KNOWN = os.path.join(ROOT, 'known_findings.json')
CELL_CAP = float(os.environ.get('VKOPF_CELL_CAP', '900'))


def _run_worker(spec, wall_cap):
    # VKOPF_REPO (development aid only): analyse another checkout of kopf instead of /repo, e.g. a scratch worktree
    # carrying a seeded change; the registered commands never set it.
    alt = os.environ.get('VKOPF_REPO')
    env = dict(os.environ, PYTHONPATH=(alt + os.pathsep + ROOT) if alt else ROOT, PYTHONHASHSEED='0', PYTHONWARNINGS='ignore')
    t0 = time.time()
    try:
        p = subprocess.run([PY, '-m', 'vkopf.worker', json.dumps(spec)], cwd=ROOT, env=env,
                           capture_output=True, text=True, timeout=wall_cap)
    except subprocess.TimeoutExpired:
        return {'status': 'inconclusive', 'message': f'wall cap {wall_cap}s hit', 'wall_s': wall_cap, 'paths': 0}
    for line in reversed(p.stdout.splitlines()):
        if line.startswith('RESULT '):
            res = json.loads(line[7:])
            res.setdefault('wall_s', round(time.time() - t0, 2))
            return res
    return {'status': 'harness_error', 'message': 'no RESULT line; rc=%s; stderr tail: %s' % (p.returncode, p.stderr[-1500:])}


def _sha(obj):
    try:
        src = inspect.getsource(obj)
    except Exception:
        return None
    return hashlib.sha256(src.encode()).hexdigest()[:16]


def _qual(obj):
    return f'{getattr(obj, "__module__", "?")}.{getattr(obj, "__qualname__", repr(obj))}'


def load_known():
    if not os.path.exists(KNOWN):
        return []
    return json.load(open(KNOWN)).get('findings', [])


def run_property(pid, tier, jobs=None, only=None):
    t_start = time.time()
    seed = int(os.environ.get('VERIF_SEED', '0') or 0)
    strict = os.environ.get('VKOPF_STRICT') == '1'
    modname = f'vkopf.props.{pid.lower()}'
    sys.path.insert(0, ROOT)
    mod = importlib.import_module(modname)
    # the thorough tier is a superset of the quick one
    obs = [o for o in mod.obligations() if tier in o.tiers or (tier == 'thorough' and 'quick' in o.tiers)]
    if only:
        obs = [o for o in obs if o.fn in only]
    if os.environ.get('VKOPF_CELL_FILTER'):     # development aid: only the cells whose JSON contains this substring
        obs = [o for o in obs if os.environ['VKOPF_CELL_FILTER'] in json.dumps(o.cell, sort_keys=True)]
    scale = float(os.environ.get('VKOPF_TIMEOUT_SCALE', '1'))
    tasks = []   # (kind, ob, twin, spec)
    for o in obs:
        # no cell may hog a core: whatever does not exhaust within 15 CPU-minutes is reported as inconclusive
        base = {'module': modname, 'fn': o.fn, 'cell': o.cell, 'timeout': min(o.timeout, CELL_CAP) * scale,
                'path_timeout': o.path_timeout, 'engine': o.engine}
        if o.main:
            tasks.append(('main', o, None, dict(base)))
        for tw in o.twins:
            tasks.append(('twin', o, tw, dict(base, twin=tw, timeout=min(o.timeout, 600) * scale)))
    jobs = jobs or int(os.environ.get('VERIF_JOBS', '0') or 0) or min(16, os.cpu_count() or 4)
    results = []
    with concurrent.futures.ThreadPoolExecutor(max_workers=jobs) as ex:
        futs = {ex.submit(_run_worker, spec, spec['timeout'] * 1.5 + 120): (kind, o, tw, spec)
                for kind, o, tw, spec in tasks}
        for f in concurrent.futures.as_completed(futs):
            kind, o, tw, spec = futs[f]
            results.append((kind, o, tw, spec, f.result()))
    results.sort(key=lambda r: (r[1].fn, json.dumps(r[1].cell, sort_keys=True), r[0], r[2] or ''))

    known = [k for k in load_known() if k.get('property') == pid]
    violations, harness_errors, inconclusive, known_lines, notes = [], [], [], [], []
    per_ob, samples = [], []
    n_ob = n_dis = 0
    os.makedirs(REPLAYS, exist_ok=True)
    for kind, o, tw, spec, res in results:
        label = f'{o.fn}{json.dumps(o.cell, sort_keys=True)}' + (f' twin={tw}' if tw else '')
        st = res.get('status')
        entry = {'obligation': label, 'kind': kind, 'engine': o.engine, 'status': st, 'paths': res.get('harness_calls', res.get('paths', 0)),
                 'nontrivial_paths': res.get('nontrivial_paths', 0), 'tags': res.get('tags', {}),
                 'queries': res.get('queries', 0), 'solver_s': res.get('solver_s', 0.0),
                 'realizations': res.get('realizations', 0), 'wall_s': res.get('wall_s', 0), 'cpu_s': res.get('cpu_s', 0)}
        if res.get('task_faults'):
            entry['task_faults'] = res['task_faults']
            entry['task_fault_sample'] = res.get('task_fault_sample')
            if kind != 'twin':
                notes.append(f'{res["task_faults"]} task(s) ended with a programming error in {label}: {res.get("task_fault_sample")}')
        if kind == 'twin':
            # vacuity twin: the negated oracle at the witnessed branch MUST be refuted
            entry['expected'] = 'counterexample'
            if st == 'counterexample':
                entry['status'] = 'reached'
                if len(samples) < 6 and res.get('args') is not None:
                    samples.append({'reaches': tw, 'harness': o.fn, 'cell': o.cell, 'args': res['args']})
            elif st in ('confirmed', 'pre_unsat'):
                # the negated oracle holds on ALL paths: the witnessed branch is unreachable -> the harness is vacuous there
                harness_errors.append(f'vacuity twin not refuted ({st}): {label}: {res.get("message", "")[:300]}')
            elif st == 'harness_error':
                harness_errors.append(f'vacuity twin failed ({st}): {label}: {res.get("message", "")[:300]}')
            else:
                entry['status'] = 'twin_inconclusive'      # not found within its budget: reported, not an error
                notes.append(f'twin inconclusive (witness not found within the budget): {label}')
            per_ob.append(entry)
            continue
        n_ob += 1
        if o.expect == 'counterexample':
            # witness of a listed known finding (proved to still exist, printed, never a violation)
            entry['expected'] = 'counterexample'
            kf = next((k for k in known if k.get('id') == o.finding), None)
            if st == 'counterexample':
                rep = _replay(spec, res)
                if rep.get('reproduced') and kf is not None and kf.get('status') == 'known':
                    known_lines.append(f'KNOWN-FINDING: property={pid} {kf["what"]} [witness {res.get("args")}]')
                    n_dis += 1
                    entry['status'] = 'known_finding_witnessed'
                    samples.append({'known_finding': o.finding, 'args': res.get('args')})
                elif rep.get('reproduced'):
                    path = _write_replay(pid, o, spec, res, rep)
                    violations.append((label, path))
                else:
                    harness_errors.append(f'counterexample does not replay: {label} {res.get("args")}')
            elif st == 'confirmed':
                entry['status'] = 'finding_not_reproduced'
                n_dis += 1
            else:
                inconclusive.append(label)
            per_ob.append(entry)
            continue
        if res.get('realizations', 0) and st in ('confirmed', 'inconclusive'):
            notes.append(f'{res["realizations"]} realisations of symbolic values (C boundary) in {label}: exhaustion still means all '
                         f'branches were explored, but unbounded values are enumerated there')
        if st == 'confirmed':
            n_dis += 1
        elif st == 'counterexample':
            if res.get('args') is None:
                harness_errors.append(f'counterexample without parsable arguments: {label}: {res.get("message", "")[:500]}')
            else:
                rep = _replay(spec, res)
                entry['replay'] = {k: rep.get(k) for k in ('reproduced', 'returned', 'exception')}
                if rep.get('reproduced'):
                    path = _write_replay(pid, o, spec, res, rep)
                    violations.append((label, path))
                else:
                    harness_errors.append(f'counterexample does not replay concretely: {label} {res.get("args")}')
        elif st in ('inconclusive', 'pre_unsat'):
            inconclusive.append(label)
            entry['message'] = res.get('message', '')[:300]
        else:
            harness_errors.append(f'{label}: {st}: {res.get("message", "")[:600]} {res.get("traceback", "")[-1200:]}')
        per_ob.append(entry)

    meta = getattr(mod, 'META', {})
    encoded = [{'function': _qual(f), 'sha256_16': _sha(f)} for f in getattr(mod, 'ENCODED', [])]
    evaluations = sum(e['paths'] for e in per_ob)
    nontrivial = sum(e['nontrivial_paths'] for e in per_ob if e['kind'] == 'main')
    for e in per_ob:
        if e['kind'] == 'main' and len(samples) < 10:
            samples.append({'obligation': e['obligation'], 'status': e['status'], 'paths': e['paths'], 'tags': e['tags']})
    wall = time.time() - t_start
    evidence = {
        'property_id': pid, 'tier': tier, 'seed': seed, 'level': 'model_checking',
        'coverage': {
            'evaluations': max(evaluations, 0), 'distinct_nontrivial': nontrivial,
            'rule': 'evaluations = feasible execution paths of the real code executed symbolically (one per '
                    'CrossHair iteration that reached the harness body, all obligations and twins); each path is '
                    'a distinct leaf of the decision tree and stands for all inputs satisfying its path condition. '
                    'distinct_nontrivial = paths of main obligations on which the oracle\'s non-trivial branch '
                    '(vkopf.witness) was evaluated. For SMT obligations a "path" is one solver query.',
            'samples': samples, 'obligations': n_ob, 'discharged': n_dis,
            'exhaustive': bool(n_ob and n_dis == n_ob and not harness_errors),
            'inconclusive': inconclusive, 'functions_encoded': encoded,
            'bounds': meta.get('bounds', ''), 'outside_claim': meta.get('outside', ''),
            'stubs': meta.get('stubs', []),
            'queries': sum(e['queries'] for e in per_ob), 'solver_time_s': round(sum(e['solver_s'] for e in per_ob), 2),
            'per_obligation': per_ob, 'engine': 'CrossHair 0.0.110 + z3 (vkopf.worker), encoding regenerated from /repo on every run',
        },
        'assumptions': meta.get('assumptions', []) + [
            'SymLoop replicates asyncio BaseEventLoop._run_once ordering; code between awaits takes zero virtual time; single thread',
            'floats are modelled as mathematical reals (no IEEE rounding)'],
        'wall_s': round(wall, 2), 'violations': len(violations),
    }
    os.makedirs(EVID, exist_ok=True)
    with open(os.path.join(EVID, f'{pid}.json'), 'w') as f:
        json.dump(evidence, f, indent=1, default=repr)
    for line in known_lines:
        print(line)
    print(f'[{pid} {tier}] obligations={n_ob} discharged={n_dis} inconclusive={len(inconclusive)} '
          f'paths={evaluations} nontrivial={nontrivial} wall={wall:.0f}s')
    for lbl in inconclusive:
        print(f'INCONCLUSIVE (bounded evidence only, not a pass): {lbl}')
    for n in notes:
        print(f'NOTE {n}')
    for label, path in violations:
        print(f'VIOLATION property={pid} replay={path}')
    for h in harness_errors:
        print(f'HARNESS-ERROR {h}', file=sys.stderr)
    if violations:
        return 1
    if harness_errors or (strict and inconclusive):
        return 3
    return 0


def _replay(spec, res):
    rspec = dict(spec, mode='replay', args=res['args'], twin=None)
    return _run_worker(rspec, 600)


def _write_replay(pid, o, spec, res, rep):
    key = hashlib.sha256(json.dumps([o.fn, o.cell, res.get('args')], sort_keys=True, default=repr).encode()).hexdigest()[:10]
    rel = os.path.join('evidence', 'replays', f'{pid}-{o.fn}-{key}.json')
    with open(os.path.join(REPLAYS, os.path.basename(rel)), 'w') as f:
        json.dump({'property': pid, 'module': spec['module'], 'fn': o.fn, 'cell': o.cell, 'args': res.get('args'),
                   'engine': o.engine, 'crosshair_message': res.get('message'), 'replay': rep}, f, indent=1, default=repr)
    return rel


def replay_file(path):
    d = json.load(open(path))
    res = _run_worker({'module': d['module'], 'fn': d['fn'], 'cell': d['cell'], 'args': d['args'], 'mode': 'replay',
                       'engine': d.get('engine', 'crosshair')}, 600)
    print(json.dumps(res, indent=1, default=repr))
    return 1 if res.get('reproduced') else 0
