"""Probe: an affine datetime shim (microsecond integer clock) for progression/peering."""


class ShimTD:
    __slots__ = ('us',)

    def __init__(self, us):
        self.us = us

    def total_seconds(self):
        return self.us / 1000000 if isinstance(self.us, float) else _div(self.us)

    def __add__(self, o):
        if isinstance(o, ShimTD):
            return ShimTD(self.us + o.us)
        return NotImplemented

    def __sub__(self, o):
        if isinstance(o, ShimTD):
            return ShimTD(self.us - o.us)
        return NotImplemented

    def __lt__(self, o): return self.us < o.us
    def __le__(self, o): return self.us <= o.us
    def __gt__(self, o): return self.us > o.us
    def __ge__(self, o): return self.us >= o.us
    def __eq__(self, o): return isinstance(o, ShimTD) and self.us == o.us
    def __hash__(self): return 0
    def __repr__(self): return f'ShimTD({self.us!r})'


def _div(us):
    # seconds as an exact rational is not needed by kopf: it only compares and adds them back.
    return us / 1000000


ORIGIN = 1_000_000
SCALE = 1  # probe: 1 tick == 1 "second"; the real shim will carry microseconds


class ShimDT:
    __slots__ = ('t',)

    def __init__(self, t):
        self.t = t

    @classmethod
    def now(cls, tz=None):
        # an arbitrary wall-clock origin plus the (possibly symbolic) virtual loop time, 1 tick == 1 second
        import asyncio
        try:
            t = asyncio.get_running_loop().time()
        except RuntimeError:
            t = 0
        return ShimDT(ORIGIN + t)

    def __add__(self, o):
        if isinstance(o, ShimSec):
            return ShimDT(self.t + o.s)
        return NotImplemented

    def __sub__(self, o):
        if isinstance(o, ShimSec):
            return ShimDT(self.t - o.s)
        if isinstance(o, ShimDT):
            return ShimSec(self.t - o.t)
        return NotImplemented

    def __lt__(self, o): return self.t < o.t
    def __le__(self, o): return self.t <= o.t
    def __gt__(self, o): return self.t > o.t
    def __ge__(self, o): return self.t >= o.t
    def __eq__(self, o): return isinstance(o, ShimDT) and self.t == o.t
    def __hash__(self): return 0
    def isoformat(self, timespec='microseconds'): return ShimStamp(self)
    def replace(self, **kw): return self
    tzinfo = 'UTC'
    def __repr__(self): return f'ShimDT({self.t!r})'


class ShimSec:
    """timedelta with a (possibly symbolic) number of seconds."""
    __slots__ = ('s',)

    def __init__(self, s): self.s = s
    def total_seconds(self): return self.s
    def __add__(self, o): return ShimSec(self.s + o.s) if isinstance(o, ShimSec) else NotImplemented
    def __sub__(self, o): return ShimSec(self.s - o.s) if isinstance(o, ShimSec) else NotImplemented
    def __lt__(self, o): return self.s < o.s
    def __le__(self, o): return self.s <= o.s
    def __gt__(self, o): return self.s > o.s
    def __ge__(self, o): return self.s >= o.s
    def __eq__(self, o): return isinstance(o, ShimSec) and self.s == o.s
    def __hash__(self): return 0
    def __repr__(self): return f'ShimSec({self.s!r})'


class ShimStamp(str):
    def __new__(cls, dt):
        obj = super().__new__(cls, '<shim-stamp>')
        obj.dt = dt
        return obj

    def __str__(self):
        return self        # str(stamp) keeps the carried instant (kopf wraps isoformat() in str())


def timedelta(seconds=0):
    return ShimSec(seconds)


class _TZ:
    utc = 'UTC'


class datetime_module:
    """Stands in for the `datetime` module inside kopf modules."""
    datetime = ShimDT
    timedelta = staticmethod(timedelta)
    timezone = _TZ


class iso8601_module:
    @staticmethod
    def parse_date(val, default_timezone=None):
        return val.dt


class installed:
    """Context manager: rebind the datetime/iso8601 module attributes of kopf modules to the affine shim."""

    def __init__(self, *modules):
        self.modules = modules
        self.saved = []

    def __enter__(self):
        for m in self.modules:
            self.saved.append((m, getattr(m, 'datetime', None), getattr(m, 'iso8601', None)))
            if hasattr(m, 'datetime'):
                m.datetime = datetime_module
            if hasattr(m, 'iso8601'):
                m.iso8601 = iso8601_module
        return self

    def __exit__(self, *a):
        for m, d, i in self.saved:
            if d is not None:
                m.datetime = d
            if i is not None:
                m.iso8601 = i
        return False
