"""T-concrete wall clock: `datetime.now()` inside kopf.progression follows the VIRTUAL loop clock.

kopf derives its persisted timestamps from `datetime.now() - loop.time()`; under a virtual-time loop the real wall
clock does not advance with the loop, so persisted delays would never elapse. This module stands in for the
`datetime` module attribute of `progression`: real datetime/timedelta objects, only `now()` is virtual.
"""
import asyncio
import datetime as _dt

BASE = _dt.datetime(2026, 1, 1, tzinfo=_dt.timezone.utc)


def now():
    return BASE + _dt.timedelta(seconds=float(asyncio.get_running_loop().time()))


class _VirtualDatetime(_dt.datetime):
    @classmethod
    def now(cls, tz=None):
        return now()


class module:
    datetime = _VirtualDatetime
    timedelta = _dt.timedelta
    timezone = _dt.timezone


class installed:
    def __init__(self, *modules):
        self.modules, self.saved = modules, []

    def __enter__(self):
        for m in self.modules:
            self.saved.append((m, m.datetime))
            m.datetime = module
        return self

    def __exit__(self, *a):
        for m, d in self.saved:
            m.datetime = d
        return False
