#!/bin/sh
# tools_matrix.sh [jobs] -- development aid: re-run the detecting quick-tier harness of every seeded change against a scratch
# worktree carrying the change (tools_mutrun.sh), one line per seed in /tmp/mutev/matrix2.summary; worktrees are removed.
export VERIF_JOBS="${1:-6}"
cd "${VROOT:-/verif}"
out=/tmp/mutev/matrix2.summary
mkdir -p /tmp/mutev; : > "$out"
run() {
  name="$1"; shift
  ./tools_mutrun.sh "$name" "$@" >> "$out" 2>&1
}
fin() { git -C /repo worktree remove --force "/tmp/mut/$1" 2>/dev/null; }
while read -r name prop only; do
  [ -z "$name" ] && continue
  if [ -n "$only" ]; then run "$name" "$prop" quick --only $only; else run "$name" "$prop" quick; fi
  # keep the worktree if the next line uses the same seed
  echo "$name" > /tmp/mutev/.last
done <<'EOF'
S03-remaining-patch-never-cleared C03
S03-remaining-patch-never-cleared C06 h_history
T08-remaining-patch-sticky C03
S14-finished-resume-not-repurposed C14
T02-finished-not-repurposed C14
S13-keepalive-floor-10 C13
U13-autoclean-after-sleep C13
V02-gate-skipped-with-patch C07 h_step
V03-progress-of-deselected-kept C03
V04-field-new-from-body C04 h_field_view
V06-ops-from-original-body C06 h_history
V06-ops-from-original-body C08 h_interference
V08-daemon-last-words-dropped C08 h_daemon_delivery
V12-zero-backoff-ignores-retry-after C12 h_request
V13-killer-skips-flagged C09 h_history
V14-explicit-deleted-false-runs C14
V17-empty-result-keeps-old C17 h_index_ops
V20-withdraw-only-if-announced C20 h_withdraw
V20-withdraw-only-if-announced C13 h_keepalive
EOF
for d in /tmp/mut/*; do [ -d "$d" ] && git -C /repo worktree remove --force "$d"; done
git -C /repo worktree prune
cat "$out"
